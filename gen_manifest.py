#!/usr/bin/env python3
"""Writes MANIFEST.json (kept as a script so that the per-check texts stay in one reviewed place)."""
import json

NA = {
 "C01": "Pure function of one file's text (verdict of a conforming program): no history, order, fault, configuration or time in the statement; deciding it is grammar-based property testing, not simulation (DESIGN 4.1). Its program family is used as workload only.",
 "C02": "Pure function of (program, edit site); quantifier ranges over programs and edit sites only, no seam involved (DESIGN 4.2).",
 "C03": "Pure arithmetic thresholds over one file's text; both sides of a boundary are two inputs, not two schedules (DESIGN 4.3).",
 "C09": "Pure function of the lexer's input string; oracle would be an independent scanner = differential input testing (DESIGN 4.9).",
 "C10": "Round-trip law over one string; no schedule, fault or shared state (DESIGN 4.10).",
 "C11": "Grammar-vs-regex question about one lexeme; pure function (DESIGN 4.11). Malformed-literal families are workload for C05/C08.",
 "C12": "Relation between two pure single-file runs on two related strings (metamorphic testing) (DESIGN 4.12).",
 "C13": "Pure function of the first lines of one file; header flags are per-Context, not shared state (DESIGN 4.13).",
 "C14": "Pure function of (basename, text); the file name is an input, not an environment choice (DESIGN 4.14).",
 "C17": "Metamorphic relation between two pure single-file runs (DESIGN 4.17).",
 "C18": "Metamorphic relation between two pure single-file runs (DESIGN 4.18).",
 "C19": "State carried between definitions lives inside one Context and is driven only by one file's text; no environment choice (DESIGN 4.19).",
}

CHECKS = {
 "C04": dict(
  engine="cli-sim", category="exploration", design_ref="DESIGN.md 4.4",
  technique="deterministic simulation of the run loop of main(): seeded/enumerated file sequences, argument vs glob-seam order permutations, fatal file mid-run, I/O faults at the read seam, stub git peer (--use-gitignore), strict UTF-8 stdout, value-taking options before the paths; oracle = executable model M-run over each file's outcome alone",
  text="The real main() runs in a forked child on a scratch tree; the simulator chooses the sequence of files (all 341 class sequences of length 0..4 over {clean, notice-only, erroneous, fatal} x 3 modes are executed, longer sequences and all orders of sampled multisets are seeded), the order in which a directory's files are processed (explicit permutations of the glob seam) and, in a separate configuration, a failing open(). M-run predicts the multiset of verdict lines and the exit status from each file's measured outcome alone. The bounded part (length <= 4) is exhaustive over class sequences, sampled over concrete files.",
  note="Trusted: in-process main() with SystemExit captured stands for the process (fidelity sample against a real `python -m norminette` subprocess in every run); M-run says nothing when a selected file alone ends in an internal error or hang (C05's matter). Sampling beyond length 4."),
 "C05": dict(
  engine="read-fault-sim", category="fault_enumeration", design_ref="DESIGN.md 4.5",
  technique="deterministic simulation with fault injection at the read seam: every token-boundary short read, every single-token loss, torn/corrupt/undecodable reads, tokenizer alone on exhaustive short strings and long runs, deep/long structure chains, CLI level with stdout closed or strict; liveness decided on a simulated tick clock",
  text="norminette.file.open is a seam that delivers a prefix, a torn or a corrupted version of each workload program; for every workload program and both file types EVERY token boundary (short read) and every single-token deletion is executed, plus mid-token cuts, seeded replace/insert/swap/pair edits, byte flips, non-ASCII and invalid UTF-8. Time is a tick counter on Context.peek_token / Lexer.raw_peek / Registry.run_rules with a no-progress deadline of 1000*(tokens+50) ticks, so hangs are decided in simulated time and reported with their call site. Outcome must be verdict or CParsingError; at CLI level an integer status and a report or fatal line. Fault points are enumerated per program; programs are sampled.",
  note="Trusted: tick-clock wrappers do not change behaviour; deadline calibrated with >10x headroom (max observed ratio is reported). Loops that do not tick are caught by a wall backstop that never converts a slow-but-advancing run into a hang (such runs are reported as inconclusive 'slow'). The oracle does not say which of verdict/fatal a damaged file gets."),
 "C07": dict(
  engine="read-fault-sim+conservation-monitor", category="fault_enumeration", design_ref="DESIGN.md 4.7",
  technique="deterministic simulation with a run-time conservation monitor on Context.pop_tokens/update; fault injection of unrecognisable fragments at every statement boundary with the trailing newline kept or lost",
  text="Wrappers of Context.pop_tokens, Context.update and Registry.run_rules record one event per main-loop iteration; invariants I1 (every iteration consumes >=1 token, segments consecutive and covering), I2 (in files the tool itself finds clean every statement starts at column 1 and ends at a line end; generated files: statements recognised == statements emitted) and I3 (scope back at file level after each function) are checked while runs proceed. In the fault configuration every statement boundary of every base program gets seeded fragments of the unrecognisable family, newline kept or lost, through the real main(): whenever the monitor saw an iteration matching no primary, the run must end with the fatal line naming the file and non-zero status (I4), in both output formats. Multi-file runs: every file that gets a verdict line has a complete monitor record - examined once, all tokens consumed, nothing unmatched (I5). Generated programs: scope level before each statement equals its nesting depth by construction.",
  note="'Unrecognisable' is measured by the monitor, not assumed. I4 asserted for default options only. Boundaries are enumerated per base program; base programs and (in the quick tier) fragments are sampled."),
 "C08": dict(
  engine="cli-sim+wellformedness-monitor", category="exploration", design_ref="DESIGN.md 4.8",
  technique="deterministic simulation varying the emission order of diagnostics (explicit permutations of Errors._inner before formatting), the output format and input damage, runs selecting no source, files with >1000 diagnostics, directory names that are not valid UTF-8; well-formedness monitor on every printed report",
  text="Every report printed by a simulated run is checked for W1 (catalogue code/text, level, position inside the delivered content) and W2 (ascending printed positions); each run is paired with its -f json twin (W3: stdout is one JSON document describing the same files, verdicts, diagnostics, order) and re-run under K explicit permutations of the diagnostics' emission order (W4: report identical up to ties of equal position and code). Damaged inputs (torn reads, token edits, lexical junk, non-ASCII) provide multi-highlight diagnostics, ties and non-ASCII text; synthetic diagnostic lists over a 4x4 position grid are pushed through both formatters under permutations; W1/W2 are also evaluated at API level on every line-boundary short read of every pool file and every lost line tail of every repository sample.",
  note="Weakest fit of the technique (configuration/emission-order swarming, no fault in the statement). Comparator laws are sampled through synthetic lists, not enumerated. Runs with a fatal file are excluded from W3 (statement silent). One open known finding: BAD_LEXEME is not a catalogue code."),
 "C15": dict(
  engine="cli-sim", category="exploration", design_ref="DESIGN.md 4.15",
  technique="deterministic simulation of file discovery on a real scratch file system: seeded directory trees and argument lists, glob-order permutations, stub git peer with failures and with a repository located through the environment, vanishing files, device links named like sources; oracle = independent walk of the model tree (M-discover / M-ignore)",
  text="Per run a seeded model tree (names with spaces, interior dots, look-alike suffixes, empty directories, non-C files, directories named like C files) is materialised under /dev/shm so that glob and pathlib are real; main() runs with 0..5 seeded arguments from a seeded cwd, with/without --use-gitignore against an in-process git model, every glob result permuted explicitly. The multiset of verdict basenames, rejection messages and abort status must equal what an independent walk of the model predicts. Separate configurations inject git rc 128, a missing git binary and a file vanishing between discovery and read (relaxed oracles).",
  note="Trusted: SimGit (validated against the real git binary on a sample in every run, 50 scenarios in the thorough tier). Outside the domain, never flagged: hidden names, symbolic links to files or directories (those are exercised by C06's path spellings), unreadable directories."),
 "C16": dict(
  engine="cli-sim", category="exploration", design_ref="DESIGN.md 4.16",
  technique="deterministic simulation over the run configuration: the full 216-vector option lattice per sampled file and the input channel (disk read through the open seam vs argv); oracle relative to the reference vector run alone",
  text="For each sampled workload file (all classes, both file types) all 216 option vectors {--no-colors} x {-f json|humanized} x {-o} x {none,-d,-dd} x {none,-R <word>,-R CheckDefine} x {disk, inline with the matching flag, inline with the other flag + --filename} are executed through the real main(), each in its own forked child; the report as printed (the print of the formatter object is captured at the print seam, so debug chatter cannot be confused with it, and its text is parsed in the requested format) must equal the reference vector's: same verdict and (level, code, line, column, text). -R CheckDefine: diagnostics are a sub-multiset of the reference, the removed ones emitted by the #define-value check (measured from which check class called Errors.add) on #define lines, and that check emits nothing in the variant run. Multi-file invocations under seeded vectors: each file is held against its own reference.",
  note="Option lattice exhaustive per file; files sampled. Domain: contents without CR/NUL. Runs that reach no verdict under one of the two vectors are excluded from (a), as the statement says."),
 "C06": dict(
  engine="history-sim", category="exploration", design_ref="DESIGN.md 4.6",
  technique="deterministic simulation: seeded search over histories of analyses in one process (API and CLI level), rule-directory listing permutations, interpreter configuration (hash seeds, optimisation level) in shard interpreters, path spellings incl. symbolic links, volume histories (>100 000 statements); oracle = same outcome as alone in a pristine forked process",
  text="Every simulated run executes in a child forked from a pristine zygote; a scenario is an explicit history of analyses sharing one process/registry. All ordered pairs over a 60-file stress pool (every reachable fatal raise site, internal-error site, state-stressing files) are enumerated; histories of length 3..8, CLI-level repeated main() invocations, path spellings, listing permutations of the rules directory (seam on os.listdir during a fresh import) and other PYTHONHASHSEEDs are sampled from the seed. The oracle compares terminal outcome and diagnostics (level, code, text, positions, order) with the same file analysed alone. A process state vector (recursion limit, rule tables, module-level lists) is probed before each op and used to bias the search toward successors of state-changing predecessors.",
  note="Sampling, not proof. Trusted: the in-process seams (os.listdir wrapper at import, norminette.file.open, glob order shim) and that a forked child of the booted zygote is a faithful 'fresh process'. Concurrency, synthetic aborts at arbitrary instructions and caller stack depth are outside the statement and not explored."),
}


def main():
    checks = []
    for pid in sorted(CHECKS):
        c = CHECKS[pid]
        checks.append({
            "property_id": pid,
            "quick_cmd": f"./check {pid} --tier quick",
            "thorough_cmd": f"./check {pid} --tier thorough",
            "evidence_file": f"/verif/evidence/{pid}.json",
            "replay_cmd_template": f"./check {pid} --replay {{path}}",
            "engine": c["engine"],
            "level_claimed": {"category": c["category"], "text": c["text"], "design_ref": c["design_ref"]},
            "level_note": c["note"],
            "technique": c["technique"],
        })
    na = [{"property_id": k, "reason": v} for k, v in sorted(NA.items())]
    for pid, why in sorted(PENDING.items()):
        na.append({"property_id": pid, "reason": why})
    doc = {
        "version": 1,
        "setup_cmd": "/venv/bin/python -c \"import sys; sys.path.insert(0,'/verif'); import nsim.core as c; c.boot(); print('nsim ok', c.REPO)\"",
        "hooks": {"guard": "NORMINETTE_VERIF", "enable": "none needed: every seam is a test-side patch of a module attribute (DESIGN 3.10); checks import norminette from /repo's working tree (NSIM_REPO overrides the path)",
                  "baseline_off_cmd": "cd /repo && /venv/bin/python -m pytest -q -p no:cacheprovider",
                  "source_commits": [], "add_only": True},
        "engines": [
            {"name": "history-sim", "path": "/verif/nsim/engines/c06.py", "serves_properties": ["C06"], "kind_free_text": "deterministic simulation of process histories with listing-order / hash-seed seams"},
        ] + ENGINES_EXTRA,
        "checks": checks,
        "not_applicable": na,
        "notes": "Technique: deterministic simulation with fault injection only. One entry point: ./check <id> [--tier quick|thorough] [--replay path]; exit 0 held, 1 VIOLATION (replay file under /verif/replays), 2 HARNESS-ERROR. VERIF_SEED selects the seed. See DESIGN.md.",
    }
    with open("/verif/MANIFEST.json", "w") as fh:
        json.dump(doc, fh, indent=1)


PENDING = {}
ENGINES_EXTRA = [
    {"name": "cli-sim", "path": "/verif/nsim/engines/c04.py, c15.py, c16.py, c08.py", "serves_properties": ["C04", "C15", "C16", "C08"],
     "kind_free_text": "the real main() in a forked child on a scratch tree behind glob/open/git/print seams"},
    {"name": "read-fault-sim", "path": "/verif/nsim/engines/c05.py, c07.py", "serves_properties": ["C05", "C07"],
     "kind_free_text": "fault injection at the read seam with a simulated tick clock and a conservation monitor"},
]

if __name__ == "__main__":
    main()
