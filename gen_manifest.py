#!/usr/bin/env python3
"""Writes MANIFEST.json (kept as a script so that the per-check texts stay in one reviewed place)."""
import json

NA = {
 "C01": "Pure function of one file's text (verdict of a conforming program): no history, order, fault, configuration or time in the statement; deciding it is grammar-based property testing, not simulation (DESIGN 4.1). Its program family is used as workload only.",
 "C02": "Pure function of (program, edit site); quantifier ranges over programs and edit sites only, no seam involved (DESIGN 4.2).",
 "C03": "Pure arithmetic thresholds over one file's text; both sides of a boundary are two inputs, not two schedules (DESIGN 4.3).",
 "C09": "Pure function of the lexer's input string; oracle would be an independent scanner = differential input testing (DESIGN 4.9).",
 "C10": "Round-trip law over one string; no schedule, fault or shared state (DESIGN 4.10).",
 "C11": "Grammar-vs-regex question about one lexeme; pure function (DESIGN 4.11). Malformed-literal families are workload for C05/C08.",
 "C12": "Relation between two pure single-file runs on two related strings (metamorphic testing) (DESIGN 4.12).",
 "C13": "Pure function of the first lines of one file; header flags are per-Context, not shared state (DESIGN 4.13).",
 "C14": "Pure function of (basename, text); the file name is an input, not an environment choice (DESIGN 4.14).",
 "C17": "Metamorphic relation between two pure single-file runs (DESIGN 4.17).",
 "C18": "Metamorphic relation between two pure single-file runs (DESIGN 4.18).",
 "C19": "State carried between definitions lives inside one Context and is driven only by one file's text; no environment choice (DESIGN 4.19).",
}

CHECKS = {
 "C06": dict(
  engine="history-sim", category="exploration", design_ref="DESIGN.md 4.6",
  technique="deterministic simulation: seeded search over histories of analyses in one process (API and CLI level), rule-directory listing permutations, hash seeds and path spellings; oracle = same outcome as alone in a pristine forked process",
  text="Every simulated run executes in a child forked from a pristine zygote; a scenario is an explicit history of analyses sharing one process/registry. All ordered pairs over a 60-file stress pool (every reachable fatal raise site, internal-error site, state-stressing files) are enumerated; histories of length 3..8, CLI-level repeated main() invocations, path spellings, listing permutations of the rules directory (seam on os.listdir during a fresh import) and other PYTHONHASHSEEDs are sampled from the seed. The oracle compares terminal outcome and diagnostics (level, code, text, positions, order) with the same file analysed alone. A process state vector (recursion limit, rule tables, module-level lists) is probed before each op and used to bias the search toward successors of state-changing predecessors.",
  note="Sampling, not proof. Trusted: the in-process seams (os.listdir wrapper at import, norminette.file.open, glob order shim) and that a forked child of the booted zygote is a faithful 'fresh process'. Concurrency, synthetic aborts at arbitrary instructions and caller stack depth are outside the statement and not explored."),
}


def main():
    checks = []
    for pid in sorted(CHECKS):
        c = CHECKS[pid]
        checks.append({
            "property_id": pid,
            "quick_cmd": f"./check {pid} --tier quick",
            "thorough_cmd": f"./check {pid} --tier thorough",
            "evidence_file": f"/verif/evidence/{pid}.json",
            "replay_cmd_template": f"./check {pid} --replay {{path}}",
            "engine": c["engine"],
            "level_claimed": {"category": c["category"], "text": c["text"], "design_ref": c["design_ref"]},
            "level_note": c["note"],
            "technique": c["technique"],
        })
    na = [{"property_id": k, "reason": v} for k, v in sorted(NA.items())]
    for pid, why in sorted(PENDING.items()):
        na.append({"property_id": pid, "reason": why})
    doc = {
        "version": 1,
        "setup_cmd": "/venv/bin/python -c \"import sys; sys.path.insert(0,'/verif'); import nsim.core as c; c.boot(); print('nsim ok', c.REPO)\"",
        "hooks": {"guard": "NORMINETTE_VERIF", "enable": "none needed: every seam is a test-side patch of a module attribute (DESIGN 3.10); checks import norminette from /repo's working tree (NSIM_REPO overrides the path)",
                  "baseline_off_cmd": "cd /repo && /venv/bin/python -m pytest -q -p no:cacheprovider",
                  "source_commits": [], "add_only": True},
        "engines": [
            {"name": "history-sim", "path": "/verif/nsim/engines/c06.py", "serves_properties": ["C06"], "kind_free_text": "deterministic simulation of process histories with listing-order / hash-seed seams"},
        ] + ENGINES_EXTRA,
        "checks": checks,
        "not_applicable": na,
        "notes": "Technique: deterministic simulation with fault injection only. One entry point: ./check <id> [--tier quick|thorough] [--replay path]; exit 0 held, 1 VIOLATION (replay file under /verif/replays), 2 HARNESS-ERROR. VERIF_SEED selects the seed. See DESIGN.md.",
    }
    with open("/verif/MANIFEST.json", "w") as fh:
        json.dump(doc, fh, indent=1)


PENDING = {}
ENGINES_EXTRA = []

if __name__ == "__main__":
    main()
