"""nsim - deterministic simulation with fault injection for 42School/norminette (see /verif/DESIGN.md)."""
