"""Core of the simulator: PRNG derivation, boot of the code under test behind its seams,
the simulated (tick) clock, the recording seams and the executor of explicit scenarios.

Nothing in this module draws a random number or reads a wall clock while a scenario is
executed (the wall backstop only *kills*; it never influences a recorded event).
"""
import base64
import builtins
import hashlib
import io
import json
import linecache
import os
import random
import shutil
import signal
import sys
import traceback

REPO = os.path.realpath(os.environ.get("NSIM_REPO", "/repo"))
PKG = os.path.join(REPO, "norminette")
RULES_DIR = os.path.join(PKG, "rules")
SCRATCH_BASE = "/dev/shm" if os.path.isdir("/dev/shm") and os.access("/dev/shm", os.W_OK) else None


# --------------------------------------------------------------------------------------
# one integer decides everything
# --------------------------------------------------------------------------------------
def derive_rng(check, seed, i):
    h = hashlib.sha256(f"nsim|{check}|{seed}|{i}".encode()).digest()
    return random.Random(int.from_bytes(h[:8], "big"))


def apply_perm(spec, items):
    """Explicit, length-independent permutation spec: None (canonical sorted order), "rev",
    an int (seed of a private shuffle) or a list of indexes into the sorted list."""
    items = sorted(items)
    if spec is None:
        return items
    if spec == "rev":
        return items[::-1]
    if isinstance(spec, int):
        random.Random(spec).shuffle(items)
        return items
    if isinstance(spec, list):
        out = [items[k] for k in spec if 0 <= k < len(items)]
        rest = [x for k, x in enumerate(items) if k not in set(spec)]
        return out + rest
    raise ValueError(f"bad permutation spec {spec!r}")


# --------------------------------------------------------------------------------------
# simulated clock
# --------------------------------------------------------------------------------------
class SimDeadline(BaseException):
    """Raised inside the code under test when simulated time runs out without progress.
    BaseException and sticky (see Clock.expired): norminette has a bare `except:`."""


class Clock:
    __slots__ = ("ticks", "deadline", "budget", "last_progress", "n", "expired", "max_ratio",
                 "lex_deadline", "lex_ticks", "wall", "site", "progress_events", "mult")

    def reset(self):
        self.mult = getattr(self, "mult", 1)
        self.ticks = 0
        self.budget = 1 << 60
        self.deadline = 1 << 60
        self.last_progress = 0
        self.n = 0
        self.expired = None        # None | "ticks" | "lexticks" | "wall"
        self.max_ratio = 0.0
        self.lex_deadline = None
        self.lex_ticks = 0
        self.site = None
        self.progress_events = 0

    def arm(self, n):
        self.n = n
        self.budget = 1000 * (n + 50) * self.mult
        self.last_progress = self.ticks
        self.deadline = self.ticks + self.budget

    def disarm(self):
        self.budget = 1 << 60
        self.deadline = 1 << 60

    def progress(self):
        gap = self.ticks - self.last_progress
        r = gap / (self.n + 50)
        if r > self.max_ratio:
            self.max_ratio = r
        self.last_progress = self.ticks
        self.deadline = self.ticks + self.budget
        self.progress_events += 1

    def expire(self, kind):
        if self.expired is None:
            self.expired = kind
            self.site = site_of_stack(sys._getframe(2))
        raise SimDeadline(kind)


CLOCK = Clock()
CLOCK.reset()


# --------------------------------------------------------------------------------------
# sites: stable identity of a place in the code under test
# --------------------------------------------------------------------------------------
def _rel(fn):
    fn = os.path.realpath(fn) if fn and not fn.startswith("<") else (fn or "?")
    if fn.startswith(REPO + os.sep):
        return fn[len(REPO) + 1:]
    return None


def _frame_id(filename, func, lineno, with_line=True):
    rel = _rel(filename)
    if rel is None:
        return None
    text = (linecache.getline(filename, lineno) or "").strip() if with_line else ""
    return [rel, func, text]


def site_from_frames(frames):
    """frames: list of (filename, funcname, lineno) outermost first.
    Returns [innermost norminette frame (file, func), innermost norminette/rules frame
    (file, func, line text)] - see DESIGN 3.8."""
    inner = None
    rule = None
    for fn, func, ln in frames:
        fid = _frame_id(fn, func, ln)
        if fid is None:
            continue
        inner = fid
        if fid[0].startswith("norminette/rules/") and not fid[0].endswith("/rule.py"):
            rule = fid
    return {"inner": inner[:2] + [inner[2]] if inner else None, "rule": rule}


def site_of_tb(tb):
    frames = [(f.filename, f.name, f.lineno) for f in traceback.extract_tb(tb)]
    return site_from_frames(frames)


def site_of_stack(frame):
    frames = []
    while frame is not None:
        frames.append((frame.f_code.co_filename, frame.f_code.co_name, frame.f_lineno))
        frame = frame.f_back
    frames.reverse()
    return site_from_frames(frames)


def site_key(site, with_line=True):
    """Hashable, stable identity used in (property, clause, site) triples."""
    if not site:
        return "?"
    inner = site.get("inner")
    rule = site.get("rule")
    a = f"{inner[0]}:{inner[1]}" if inner else "?"
    if rule:
        b = f"{rule[0]}:{rule[1]}"
        if with_line:
            b += f":{rule[2]}"
    elif inner and with_line:
        b = inner[2]
    else:
        b = ""
    return f"{a} <- {b}" if b else a


# --------------------------------------------------------------------------------------
# boot: fresh import of the code under test, with the rule-directory listing seam (S1)
# --------------------------------------------------------------------------------------
class NS:
    pass


N = None          # namespace of the booted code under test
BOOT_INFO = None


def boot(listing=None, hide_pycache=False):
    """Purge norminette from sys.modules and import it from REPO with os.listdir of the
    rules directory returning the sorted real listing permuted by `listing`."""
    global N, BOOT_INFO
    for name in [m for m in sys.modules if m == "norminette" or m.startswith("norminette.")]:
        del sys.modules[name]
    if sys.path[0] != REPO:
        sys.path.insert(0, REPO)
    sys.dont_write_bytecode = True
    linecache.clearcache()
    real_listdir = os.listdir
    seen = {}

    def listdir(path="."):
        res = real_listdir(path)
        try:
            is_rules = os.path.realpath(path) == RULES_DIR
        except Exception:
            is_rules = False
        if not is_rules:
            return res
        entries = sorted(res)
        if hide_pycache:
            entries = [e for e in entries if e != "__pycache__"]
        spec = listing
        if spec in ("checks_first", "primaries_first"):
            first = "check_" if spec == "checks_first" else "is_"
            entries = [e for e in entries if e.startswith(first)] + [e for e in entries if not e.startswith(first)]
        else:
            entries = apply_perm(spec, entries)
        seen["listing"] = list(entries)
        return entries

    import importlib.metadata as md
    real_version = md.version

    def version(name):
        try:
            return real_version(name)
        except Exception:
            return "0+nsim"

    os.listdir = listdir
    md.version = version
    try:
        import norminette.__main__ as main_mod
    finally:
        os.listdir = real_listdir
        md.version = real_version
    import norminette
    got = os.path.realpath(os.path.dirname(norminette.__file__))
    if got != PKG:
        raise RuntimeError(f"booted norminette from {got}, expected {PKG}")
    ns = NS()
    ns.main = main_mod
    ns.file = sys.modules["norminette.file"]
    ns.lexer = sys.modules["norminette.lexer.lexer"]
    ns.context = sys.modules["norminette.context"]
    ns.registry = sys.modules["norminette.registry"]
    ns.errors = sys.modules["norminette.errors"]
    ns.exceptions = sys.modules["norminette.exceptions"]
    ns.norm_error = sys.modules["norminette.norm_error"]
    ns.rule = sys.modules["norminette.rules.rule"]
    ns.File = ns.file.File
    ns.Lexer = ns.lexer.Lexer
    ns.Context = ns.context.Context
    ns.Registry = ns.registry.Registry
    ns.CParsingError = ns.exceptions.CParsingError
    N = ns
    BOOT_INFO = {"listing": seen.get("listing"), "spec": listing, "hide_pycache": hide_pycache}
    _install_wrappers(ns)
    return ns


# --------------------------------------------------------------------------------------
# wrappers: tick clock (S8) and the conservation monitor's observation points
# --------------------------------------------------------------------------------------
class Monitor:
    """Per-analysis recording of the main loop (one event per pop_tokens)."""
    __slots__ = ("pops", "updated", "ntokens", "who_emitted", "cur_rule", "files", "seen_runs", "repeats")

    def reset(self):
        self.files = []     # one record per Context created since the reset (= per file examined)
        self.pops = []
        self.updated = False
        self.ntokens = 0
        self.who_emitted = []
        self.cur_rule = None
        self.seen_runs = set()   # (context id, rule, tokens left) of every run_rules call
        self.repeats = []        # the first few (rule, tokens left) that were run more than once: a statement examined twice


MON = Monitor()
MON.reset()


def _install_wrappers(ns):
    clock = CLOCK
    mon = MON
    Context = ns.Context
    Lexer = ns.Lexer
    Registry = ns.Registry

    orig_init = Context.__init__

    def ctx_init(self, file, tokens, *a, **k):
        orig_init(self, file, tokens, *a, **k)
        mon.ntokens = len(tokens)
        mon.pops = []
        mon.files.append({"path": getattr(file, "path", None), "ntokens": len(tokens), "pops": mon.pops})
        mon.updated = False
        clock.arm(len(tokens))
    Context.__init__ = ctx_init

    orig_peek = Context.peek_token

    def peek_token_wrapped(self, pos):
        clock.ticks += 1
        if clock.ticks > clock.deadline or clock.expired:
            clock.expire("ticks")
        return orig_peek(self, pos)
    Context.peek_token = peek_token_wrapped

    orig_pop = Context.pop_tokens

    def pop_tokens(self, stop):
        toks = self.tokens
        before = len(toks)
        first = toks[0] if toks else None
        try:
            lastc = toks[stop - 1] if isinstance(stop, int) and 0 < stop <= before else None
        except Exception:
            lastc = None
        orig_pop(self, stop)
        after = len(self.tokens)
        matched = mon.updated
        mon.updated = False
        rule = None
        if matched and self.history:
            rule = getattr(self.history[-1], "name", type(self.history[-1]).__name__)
        sc = self.scope
        mon.pops.append((before, stop, after, rule,
                         getattr(sc, "name", "?"), getattr(sc, "lvl", -1),
                         (first.type, first.pos[0], first.pos[1]) if first is not None else None,
                         lastc.type if lastc is not None else None))
        if after < before:
            clock.progress()
    Context.pop_tokens = pop_tokens

    orig_update = Context.update

    def update(self):
        mon.updated = True
        return orig_update(self)
    Context.update = update

    orig_run_rules = Registry.run_rules

    def run_rules(self, context, rule):
        clock.ticks += 1
        if clock.ticks > clock.deadline or clock.expired:
            clock.expire("ticks")
        prev = mon.cur_rule
        mon.cur_rule = rule.__name__
        key = (id(context), rule.__name__, len(context.tokens))
        if key in mon.seen_runs:
            if len(mon.repeats) < 5:
                mon.repeats.append((rule.__name__, len(context.tokens)))
        else:
            mon.seen_runs.add(key)
        try:
            return orig_run_rules(self, context, rule)
        finally:
            mon.cur_rule = prev
    Registry.run_rules = run_rules

    orig_lex_init = Lexer.__init__

    def lex_init(self, file):
        orig_lex_init(self, file)
        clock.lex_deadline = None
        clock.disarm()
    Lexer.__init__ = lex_init

    orig_raw_peek = Lexer.raw_peek

    def raw_peek(self, *, offset=0, collect=1):
        clock.lex_ticks += 1
        if clock.lex_deadline is None:
            clock.lex_deadline = clock.lex_ticks + 400 * (len(self.file.source) + 10) * clock.mult
        if clock.lex_ticks > clock.lex_deadline or clock.expired:
            clock.expire("lexticks")
        return orig_raw_peek(self, offset=offset, collect=collect)
    Lexer.raw_peek = raw_peek

    # who emitted which diagnostic (used by C16(b)): record the check/primary class that is
    # running when Errors.add is called
    Errors = ns.errors.Errors
    orig_add = Errors.add

    def add(self, *a, **k):
        n0 = len(self._inner)
        r = orig_add(self, *a, **k)
        if len(self._inner) > n0:
            mon.who_emitted.append((self._inner[-1].name, mon.cur_rule))
        return r
    Errors.add = add


# --------------------------------------------------------------------------------------
# recording writers (S6)
# --------------------------------------------------------------------------------------
class Recorder(io.TextIOBase):
    def __init__(self, sink, tag, strict=False):
        self.sink = sink
        self.tag = tag
        self.strict = strict      # a UTF-8 stream with the strict error handler (what stdout is under an ordinary UTF-8 locale)

    def writable(self):
        return True

    def write(self, s):
        if s:
            if self.strict:
                s.encode("utf-8")        # raises UnicodeEncodeError exactly where the real stream would
            self.sink.append((self.tag, s))
        return len(s)

    def flush(self):
        pass

    def isatty(self):
        return False


def sha(s):
    if isinstance(s, str):
        s = s.encode("utf-8", "surrogatepass")
    return hashlib.sha256(s).hexdigest()[:16]


# --------------------------------------------------------------------------------------
# diagnostics as plain data
# --------------------------------------------------------------------------------------
def diags_of(errors_obj, sort=True):
    """[(level, code, text, [(line, col, length, hint)...])...] in report order."""
    seq = list(errors_obj) if sort else list(errors_obj._inner)
    out = []
    for e in seq:
        out.append([e.level, e.name, e.text,
                    [[h.lineno, h.column, h.length, h.hint] for h in e.highlights]])
    return out


# --------------------------------------------------------------------------------------
# the executor: runs one explicit scenario in the current (child) process
# --------------------------------------------------------------------------------------
class FileStore:
    def __init__(self, files):
        self.files = files

    def data(self, fid):
        f = self.files[fid]
        if "bytes_b64" in f:
            return base64.b64decode(f["bytes_b64"])
        return f["content"].encode("utf-8", "surrogateescape")

    def name(self, fid):
        return self.files[fid]["name"]


class Executor:
    def __init__(self, scenario, wall_s=10.0, wall_cap=30.0):
        self.sc = scenario
        self.store = FileStore(scenario.get("files", {}))
        self.log = []          # event log (digest source)
        self.registry = None   # shared API-level registry
        self.wall_s = wall_s
        self.wall_cap = wall_cap
        self.scratch = None
        self.by_path = {}      # virtual paths for API-level reads

    # ---- event log -----------------------------------------------------------------
    def ev(self, *e):
        self.log.append(e)

    def digest(self):
        return hashlib.sha256(json.dumps(self.log, sort_keys=True, default=str).encode()).hexdigest()

    # ---- state vector probe (C06) ----------------------------------------------------
    def state_vector(self):
        ns = N
        r = ns.registry.rules
        ctx = ns.context
        lists = []
        for nm in ("types", "utypes", "glued_operators", "operators", "misc_specifiers", "assigns",
                   "size_specifiers", "sign_specifiers", "whitespaces", "arg_separator"):
            v = getattr(ctx, nm, None)
            lists.append((nm, sha(repr(v))))
        deps = None
        if self.registry is not None:
            deps = sha(repr([(k, [c.__name__ for c in v]) for k, v in sorted(self.registry.dependencies.items()) if v]))
        return {
            "containers": sha(repr(mutable_containers())),
            "reclimit": sys.getrecursionlimit(),
            "primaries": sha(repr([p.__name__ for p in r.primaries])),
            "nprim": len(r.primaries), "nchecks": len(r.checks),
            "ctxlists": sha(repr(lists)), "deps": deps,
        }

    # ---- run ---------------------------------------------------------------------------
    def run(self):
        sc = self.sc
        CLOCK.mult = int(sc.get("tick_mult") or 1)      # confirmation runs of a suspected hang get a much larger no-progress budget
        if sc.get("tick_mult"):
            self.wall_cap = max(self.wall_cap, 150.0)
        b = sc.get("boot") or {}
        if b.get("listing") is not None or b.get("hide_pycache") or N is None or b.get("reboot"):
            boot(b.get("listing"), b.get("hide_pycache", False))
            self.ev("boot", BOOT_INFO["listing"] and sha(repr(BOOT_INFO["listing"])))
        results = []
        try:
            if sc.get("tree") is not None:
                self.make_tree(sc["tree"])
                if sc.get("git_init"):
                    import subprocess
                    subprocess.run(["git", "init", "-q"], cwd=self.scratch, capture_output=True, timeout=30)
            if any(op["op"] == "api" for op in sc["ops"]):
                self.registry = N.Registry()
            for op in sc["ops"]:
                pre = self.state_vector() if sc.get("probe_state") else None
                kind = op["op"]
                if kind == "api":
                    r = self.op_api(op)
                elif kind == "lex":
                    r = self.op_lex(op)
                elif kind == "cli":
                    r = self.op_cli(op)
                elif kind == "fmt":
                    r = self.op_fmt(op)
                else:
                    raise ValueError(kind)
                if pre is not None:
                    r["state_before"] = pre
                results.append(r)
            final_state = self.state_vector() if sc.get("probe_state") else None
        finally:
            self.cleanup()
        return {"ops": results, "digest": self.digest(), "nlog": len(self.log),
                "final_state": final_state,
                "boot": {"primaries": [p.__name__ for p in N.registry.rules.primaries],
                         "checks": [c.__name__ for c in N.registry.rules.checks]} if sc.get("report_boot") else None}

    # ---- scratch tree ------------------------------------------------------------------
    def make_tree(self, tree):
        import tempfile
        self.scratch = tempfile.mkdtemp(prefix="nsim-", dir=SCRATCH_BASE)

        def build(node, path):
            for name, v in node.items():
                p = os.path.join(path, name)
                if isinstance(v, dict):
                    os.mkdir(p)
                    build(v, p)
                elif isinstance(v, str) and v.startswith("->"):
                    links.append((p, v[2:]))
                elif isinstance(v, str) and v.startswith("=>"):
                    hard.append((p, v[2:]))        # a second name for an existing file (target: path from the tree's root)
                elif isinstance(v, str) and v.startswith("@"):
                    with open(p, "wb") as fh:
                        fh.write(self.store.data(v[1:]))
                else:
                    with open(p, "wb") as fh:
                        fh.write((v or "").encode("utf-8", "surrogateescape"))
        links = []
        hard = []
        build(tree, self.scratch)
        for p, target in hard:
            os.link(os.path.join(self.scratch, target), p)
        for p, target in links:        # symbolic links last (their targets exist by then); target relative to the link's directory
            os.symlink(target, p)

    def cleanup(self):
        try:
            os.chdir("/")
        except Exception:
            pass
        if self.scratch:
            shutil.rmtree(self.scratch, ignore_errors=True)
            self.scratch = None

    def relpath(self, p):
        """Paths are logged relative to the scratch root (never absolute scratch names)."""
        if self.scratch and isinstance(p, str):
            return p.replace(self.scratch, "<root>")
        return p

    # ---- seams: open (S3) ---------------------------------------------------------------
    def install_open(self, faults):
        """norminette.file.open -> SimOpen. `faults`: [{"seam":"open","call":k,"kind":...}]"""
        ex = self
        calls = {"n": 0}
        real_open = builtins.open
        fl = {f["call"]: f for f in (faults or []) if f.get("seam") == "open"}

        def wrap(data, a, k):
            mode = a[0] if a else k.get("mode", "r")
            if "b" in mode:
                return io.BytesIO(data)
            return io.TextIOWrapper(io.BytesIO(data), encoding=k.get("encoding") or "utf-8",
                                    errors=k.get("errors"), newline=k.get("newline"))

        def sim_open(path, *a, **k):
            idx = calls["n"]
            calls["n"] += 1
            f = fl.get(idx)
            spath = os.fspath(path)
            if f is not None:
                kind = f["kind"]
                ex.ev("open", ex.relpath(spath), kind)
                if kind == "eio":
                    raise OSError(5, "Input/output error", spath)
                if kind == "eacces":
                    raise PermissionError(13, "Permission denied", spath)
                if kind == "enoent":
                    raise FileNotFoundError(2, "No such file or directory", spath)
                if kind == "eisdir":
                    raise IsADirectoryError(21, "Is a directory", spath)
                if kind == "replace":      # a second actor replaced the content (TOCTOU)
                    data = ex.store.data(f["file"])
                    return wrap(data, a, k)
                raise ValueError(kind)
            if spath in ex.by_path:
                data = ex.store.data(ex.by_path[spath])
                ex.ev("open", spath, None, sha(data))
                return wrap(data, a, k)
            fh = real_open(path, *a, **k)
            ex.ev("open", ex.relpath(spath), None)
            return fh
        N.file.open = sim_open

    # ---- op: tokenizer alone ---------------------------------------------------------------
    def op_lex(self, op):
        fid = op["file"]
        name = self.store.name(fid)
        CLOCK.reset()
        MON.reset()
        out = []
        res = {"op": "lex", "file": fid}
        self.by_path = {name: fid}
        self.install_open(None)
        old = sys.stdout, sys.stderr
        sys.stdout, sys.stderr = Recorder(out, "o"), Recorder(out, "e")
        f = None
        self.arm_wall()
        try:
            f = N.File(name)
            toks = list(N.Lexer(f))
            res["outcome"] = "verdict"
            res["ntokens"] = len(toks)
            res["tokens_sha"] = sha(repr([(t.type, t.pos, t.value) for t in toks]))
            if op.get("keep_tokens"):
                res["tokens"] = [(t.type, t.pos[0], t.pos[1], t.value) for t in toks]
        except SimDeadline:
            res["outcome"] = "hang"
        except BaseException as e:   # noqa
            res["outcome"] = "internal"
            res["exc"] = type(e).__name__
            res["excmsg"] = str(e)[:200]
            res["site"] = site_of_tb(e.__traceback__)
        finally:
            self.disarm_wall()
            sys.stdout, sys.stderr = old
        if CLOCK.expired:
            res["outcome"] = "slow" if CLOCK.expired == "slowcap" else "hang"
            res["hang_kind"] = CLOCK.expired
            res["site"] = CLOCK.site
        try:
            res["diags"] = diags_of(f.errors)
        except BaseException as e:  # noqa
            res["diags"] = None
            res["diags_exc"] = type(e).__name__
        res["stdout"] = "".join(s for t, s in out if t == "o")
        res["lex_ticks"] = CLOCK.lex_ticks
        self.ev("lex", name, res["outcome"], res.get("tokens_sha"))
        return res

    # ---- op: API-level analysis (Lexer -> Context -> Registry.run as main() chains them) --
    def op_api(self, op):
        ns = N
        fid = op["file"]
        name = self.store.name(fid)
        CLOCK.reset()
        MON.reset()
        out = []
        res = {"op": "api", "file": fid}
        self.by_path = {name: fid}
        self.install_open(op.get("faults"))
        old = sys.stdout, sys.stderr
        sys.stdout, sys.stderr = Recorder(out, "o"), Recorder(out, "e")
        if self.registry is None or op.get("fresh_registry"):
            self.registry = ns.Registry()
        f = None
        self.arm_wall()
        try:
            f = ns.File(name)
            tokens = list(ns.Lexer(f))
            res["ntokens"] = len(tokens)
            context = ns.Context(f, tokens, op.get("debug", 0), op.get("R"))
            self.registry.run(context)
            res["outcome"] = "verdict"
            res["final_scope"] = [getattr(context.scope, "name", "?"), getattr(context.scope, "lvl", -1)]
            res["left"] = len(context.tokens)
        except ns.CParsingError as e:
            res["outcome"] = "fatal"
            res["msg"] = str(e.msg)[:300]
            res["site"] = site_of_tb(e.__traceback__)
        except SimDeadline:
            res["outcome"] = "hang"
        except BaseException as e:  # noqa
            res["outcome"] = "internal"
            res["exc"] = type(e).__name__
            res["excmsg"] = str(e)[:200]
            res["site"] = site_of_tb(e.__traceback__)
        finally:
            self.disarm_wall()
            sys.stdout, sys.stderr = old
            CLOCK.disarm()
        if CLOCK.expired:
            res["outcome"] = "slow" if CLOCK.expired == "slowcap" else "hang"
            res["hang_kind"] = CLOCK.expired
            res["site"] = CLOCK.site
            CLOCK.expired = None
        try:
            res["diags_raw"] = diags_of(f.errors, sort=False)
            res["diags"] = diags_of(f.errors)
            res["status"] = f.errors.status
        except BaseException as e:  # noqa
            res["diags"] = None
            res["diags_exc"] = type(e).__name__
            res["diags_site"] = site_of_tb(e.__traceback__)
        res["stdout"] = "".join(s for t, s in out if t == "o")
        res["pops"] = MON.pops
        res["repeats"] = list(MON.repeats)
        res["who"] = MON.who_emitted
        res["ticks"] = CLOCK.ticks
        res["lex_ticks"] = CLOCK.lex_ticks
        res["max_ratio"] = round(CLOCK.max_ratio, 3)
        res["nlines"] = nlines(self.store.data(fid))
        self.ev("api", name, res["outcome"], sha(repr(res.get("diags"))), sha(res["stdout"]),
                CLOCK.ticks, len(MON.pops))
        return res

    # ---- op: formatters over given diagnostic lists (emission-order seam S9) ----------------------------
    def op_fmt(self, op):
        """op["files"]: [{"name":…, "errors":[{"name","level","text"?, "highlights":[[l,c,len,hint]…]}…]}];
        op["perms"]: emission orders to try. Returns, per permutation, both formatter outputs."""
        ns = N
        E = ns.errors
        res = {"op": "fmt", "outs": []}
        perms = op.get("perms") or [None]
        for spec in perms:
            files = []
            try:
                for fd in op["files"]:
                    f = ns.File(fd["name"], "")
                    errs = []
                    for e in fd["errors"]:
                        hl = [E.Highlight(*h) for h in e["highlights"]]
                        if e.get("text") is not None:
                            errs.append(E.Error(e["name"], e["text"], level=e.get("level", "Error"), highlights=hl))
                        else:
                            errs.append(E.Error.from_name(e["name"], level=e.get("level", "Error"), highlights=hl))
                    idx = apply_perm(spec, list(range(len(errs))))
                    for j in idx:
                        f.errors.add(errs[j])
                    files.append(f)
                human = str(E.HumanizedErrorsFormatter(files, use_colors=False))
                js = str(E.JSONErrorsFormatter(files))
                order = [[(e.name, [(h.lineno, h.column) for h in e.highlights]) for e in f.errors] for f in files]
                res["outs"].append({"perm": spec if not isinstance(spec, list) else "list", "human": human, "json": js, "order": order})
            except BaseException as e:  # noqa
                res["outs"].append({"perm": spec if not isinstance(spec, list) else "list", "exc": type(e).__name__, "excmsg": str(e)[:200],
                                    "site": site_of_tb(e.__traceback__)})
        self.ev("fmt", sha(repr([(o.get("human"), o.get("json"), o.get("exc")) for o in res["outs"]])))
        return res

    # ---- wall backstop -------------------------------------------------------------------------
    def arm_wall(self):
        """Wall backstop for loops that do not tick. It never turns a slow-but-advancing run into a
        hang: while simulated time advances between two alarms the run is left alone (the tick
        deadline decides), up to a cap after which the outcome is the inconclusive "slow"."""
        state = {"snap": -1, "elapsed": 0.0}
        interval = self.wall_s
        cap = self.wall_cap

        def on_alarm(signum, frame):
            now = CLOCK.ticks + CLOCK.lex_ticks
            state["elapsed"] += interval
            if now != state["snap"] and state["elapsed"] < cap:
                state["snap"] = now
                signal.setitimer(signal.ITIMER_VIRTUAL, interval)
                return
            CLOCK.expired = "wall" if now == state["snap"] else "slowcap"
            CLOCK.site = site_of_stack(frame)
            raise SimDeadline(CLOCK.expired)
        state["snap"] = CLOCK.ticks + CLOCK.lex_ticks
        # CPU time of this process, not wall time: a child that is merely descheduled on a loaded machine
        # must not look stuck (a blocked child is the parent's business: it is killed and re-run alone)
        signal.signal(signal.SIGVTALRM, on_alarm)
        signal.setitimer(signal.ITIMER_VIRTUAL, interval)

    def disarm_wall(self):
        signal.setitimer(signal.ITIMER_VIRTUAL, 0)

    # ---- op: CLI-level run of the real main() -------------------------------------------------------
    def op_cli(self, op):
        ns = N
        CLOCK.reset()
        MON.reset()
        out = []
        res = {"op": "cli", "argv": op["argv"]}
        ex = self
        if self.scratch and not os.path.isdir(os.path.join(self.scratch, op.get("cwd", "."))):
            res["end"] = "invalid-scenario"     # e.g. a minimisation candidate that deleted the cwd
            res["stdout"] = res["stderr"] = ""
            return res
        self.by_path = {}
        self.install_open(op.get("faults"))

        # S2: glob order
        import glob as real_glob
        gperms = list(op.get("glob_perms") or [])
        gcalls = {"n": 0}

        class GlobShim:
            @staticmethod
            def glob(pattern, **kw):
                r = real_glob.glob(pattern, **kw)
                k = gcalls["n"]
                gcalls["n"] += 1
                spec = gperms[k] if k < len(gperms) else None
                r = apply_perm(spec, r)
                ex.ev("glob", ex.relpath(pattern), spec if not isinstance(spec, list) else "list", len(r))
                return r

            def __getattr__(self, a):
                return getattr(real_glob, a)
        ns.main.glob = GlobShim()

        # S4: git peer
        git = op.get("git")
        import subprocess as real_subprocess
        gitcalls = {"n": 0}

        class SubShim:
            PIPE = real_subprocess.PIPE

            @staticmethod
            def run(cmd, *pa, **kw):
                """In-process model of the `git` peer (SimGit): `git check-ignore [-q] [-z] [--stdin] [paths…]`
                answered from the scenario's model ignore set, with git's exit codes and output format."""
                k = gitcalls["n"]
                gitcalls["n"] += 1
                cmd = [os.fspath(c) for c in cmd]
                fault = (git or {}).get("fault")
                textmode = bool(kw.get("text") or kw.get("universal_newlines") or kw.get("encoding"))

                def result(rc, out="", err=""):
                    class R:
                        returncode = rc
                        stdout = out if textmode else out.encode()
                        stderr = err if textmode else err.encode()
                        args = cmd
                    if kw.get("check") and rc != 0:
                        raise real_subprocess.CalledProcessError(rc, cmd, R.stdout, R.stderr)
                    return R()
                if fault and fault.get("call") == k:
                    ex.ev("git", [ex.relpath(c) for c in cmd[2:]], fault["kind"])
                    if fault["kind"] == "missing":
                        raise FileNotFoundError(2, "No such file or directory: 'git'")
                    return result(128, "", "fatal: simulated git failure\n")
                arg_max = (git or {}).get("arg_max")
                if arg_max is not None and sum(len(os.fsencode(c)) + 1 for c in cmd) > arg_max:
                    # execve refuses an argument vector larger than the limit derived from the stack size (ulimit -s)
                    ex.ev("git", len(cmd), "e2big")
                    raise OSError(7, "Argument list too long", cmd[0])
                quote = True
                while len(cmd) > 2 and cmd[1] == "-c":        # git's global `-c key=value` options
                    if cmd[2].lower() == "core.quotepath=false":
                        quote = False
                    cmd = [cmd[0]] + cmd[3:]
                need = (git or {}).get("needs_env") or {}
                if need:
                    # this repository is only found through the caller's environment (GIT_DIR / GIT_WORK_TREE, as under a hook
                    # or a bare-repository checkout): the peer sees what the child process is given, which is the caller's
                    # environment unless an explicit one is passed
                    seen = kw.get("env") if kw.get("env") is not None else os.environ
                    if any(seen.get(k2) != v2 for k2, v2 in need.items()):
                        ex.ev("git", [ex.relpath(c) for c in cmd[2:]], "env-missing")
                        return result(128, "", "fatal: not a git repository (or any of the parent directories): .git\n")
                if len(cmd) < 2 or os.path.basename(cmd[0]) != "git" or cmd[1] != "check-ignore":
                    ex.ev("git", [ex.relpath(c) for c in cmd[1:]], "unsupported")
                    return result(128, "", "fatal: not a git repository (nsim SimGit models check-ignore only)\n")
                rest = cmd[2:]
                if "--" in rest:
                    k9 = rest.index("--")
                    flags = [a for a in rest[:k9] if a.startswith("-")]
                    paths = [a for a in rest[:k9] if not a.startswith("-")] + rest[k9 + 1:]
                else:
                    flags = [a for a in rest if a.startswith("-")]
                    paths = [a for a in rest if not a.startswith("-")]
                z = "-z" in flags
                if "--stdin" in flags:
                    data = kw.get("input")
                    if isinstance(data, bytes):
                        data = data.decode("utf-8", "surrogateescape")
                    data = data or ""
                    paths = [x for x in data.split("\0" if z else "\n") if x]
                if not paths:
                    return result(128, "", "fatal: no path specified\n")
                verbose = "-v" in flags or "--verbose" in flags
                dec = [(x,) + ex.git_decision(x, git) for x in paths]
                if verbose:
                    # verbose mode reports (and exits 0 for) every path that matched a pattern, negated ones included
                    hit = [(x, ig, r) for x, ig, r in dec if r is not None]
                else:
                    hit = [(x, ig, r) for x, ig, r in dec if ig]
                rc = 0 if hit else 1
                ex.ev("git", [ex.relpath(x) for x in paths], "v" if verbose else "", rc)
                out = ""
                if "-q" not in flags and "--quiet" not in flags:
                    for x, ig, r in hit:
                        if verbose:
                            pat = ("!" if r["neg"] else "") + "/" + r["path"]
                            out += f".gitignore:{r.get('line', 1)}:{pat}\t" + (x + "\0" if z else (git_quote(x) if quote else x) + "\n")
                        else:
                            out += (x + "\0") if z else ((git_quote(x) if quote else x) + "\n")
                return result(rc, out)

            def __getattr__(self, a):
                return getattr(real_subprocess, a)
        if git is not None and not git.get("real"):
            ns.main.subprocess = SubShim()
        else:
            ns.main.subprocess = real_subprocess

        # S6/S9: the report print
        emit_perms = list(op.get("emit_perms") or [])
        reports = []
        stdout_mode = op.get("stdout")

        def rec_print(*args, **kw):
            if len(args) == 1 and isinstance(args[0], ns.errors._formatter):
                fmt = args[0]
                files = []
                for k, fobj in enumerate(fmt.files):
                    spec = emit_perms[k] if k < len(emit_perms) else None
                    if spec is not None:
                        inner = fobj.errors._inner
                        idx = apply_perm(spec, list(range(len(inner))))
                        fobj.errors._inner = [inner[j] for j in idx]
                    files.append(fobj)
                text = str(fmt)
                if stdout_mode == "strict":
                    text.encode("utf-8")
                rec = {"format": type(fmt).__name__, "text": ex.relpath(text), "files": []}
                for fobj in files:
                    try:
                        d = diags_of(fobj.errors)
                        st = fobj.errors.status
                    except BaseException as e:  # noqa
                        d, st = None, type(e).__name__
                    rec["files"].append({"path": ex.relpath(fobj.path), "basename": fobj.basename,
                                         "status": st, "diags": d,
                                         "nlines": nlines_src(fobj)})
                reports.append(rec)
                if stdout_mode != "closed":
                    out.append(("r", text if kw.get("end") == "" else text + kw.get("end", "\n")))
                return
            builtins.print(*args, **kw)
        ns.main.print = rec_print

        old = sys.stdout, sys.stderr, sys.argv, os.getcwd()
        saved_env = {}
        ambient = dict((git or {}).get("needs_env") or {})
        ambient.update(op.get("env") or {})        # S10: ambient environment variables of the process (COLUMNS, TZ, NO_COLOR ...)
        for k2, v2 in ambient.items():
            saved_env[k2] = os.environ.get(k2)
            os.environ[k2] = v2
        if "TZ" in ambient:
            import time as _time
            _time.tzset()
        saved_rlimit = None
        if op.get("fd_headroom") is not None:
            # S10: the descriptor limit of the process (ulimit -n), expressed as head-room over what is open right now
            import resource
            saved_rlimit = resource.getrlimit(resource.RLIMIT_NOFILE)
            try:
                now = len(os.listdir("/proc/self/fd"))
            except OSError:
                now = 16
            resource.setrlimit(resource.RLIMIT_NOFILE, (min(now + int(op["fd_headroom"]), saved_rlimit[0]), saved_rlimit[1]))
        # S6: what standard output is: a lenient recorder (default), a strict UTF-8 stream, or closed (file descriptor 1 was
        # closed when the process started: Python sets sys.stdout to None and print() does nothing)
        sys.stdout, sys.stderr = (None if stdout_mode == "closed" else Recorder(out, "o", strict=stdout_mode == "strict")), Recorder(out, "e")
        # "<root>" in an argument stands for the absolute path of the scenario's tree (known only once the tree exists)
        sys.argv = ["norminette"] + [a.replace("<root>", self.scratch) if (self.scratch and isinstance(a, str)) else a for a in op["argv"]]
        if self.scratch:
            os.chdir(os.path.join(self.scratch, op.get("cwd", ".")))
        self.arm_wall()
        CLOCK.disarm()
        try:
            ns.main.main()
            res["exit"] = None
            res["end"] = "returned"
        except SystemExit as e:
            # what the operating system would report for this process: None -> 0, an int is truncated to 8 bits,
            # anything else is printed to stderr and the status is 1
            code = e.code
            res["exit_raw"] = code if isinstance(code, (int, type(None))) else str(code)[:100]
            if code is None:
                res["exit"] = 0
            elif isinstance(code, int):
                res["exit"] = code & 0xFF
            else:
                res["exit"] = 1
                out.append(("e", str(code) + "\n"))
            res["end"] = "exit"
        except SimDeadline:
            res["end"] = "hang"
        except BaseException as e:  # noqa
            res["end"] = "internal"
            res["exc"] = type(e).__name__
            res["excmsg"] = ex.relpath(str(e)[:200])
            res["site"] = site_of_tb(e.__traceback__)
        finally:
            self.disarm_wall()
            sys.stdout, sys.stderr, sys.argv = old[0], old[1], old[2]
            if saved_rlimit is not None:
                import resource
                resource.setrlimit(resource.RLIMIT_NOFILE, saved_rlimit)
            for k2, v2 in saved_env.items():
                if v2 is None:
                    os.environ.pop(k2, None)
                else:
                    os.environ[k2] = v2
            if "TZ" in ambient:
                import time as _time
                _time.tzset()
            try:
                os.chdir(old[3])
            except Exception:
                os.chdir("/")
            CLOCK.disarm()
        if CLOCK.expired:
            res["end"] = "slow" if CLOCK.expired == "slowcap" else "hang"
            res["hang_kind"] = CLOCK.expired
            res["site"] = CLOCK.site
            CLOCK.expired = None
        res["stdout"] = self.relpath("".join(s for t, s in out if t in ("o", "r")))
        res["stderr"] = self.relpath("".join(s for t, s in out if t == "e"))
        res["segments"] = [(t, self.relpath(s)) for t, s in out if t in ("o", "r")]
        res["reports"] = reports
        res["who"] = MON.who_emitted
        res["pops"] = MON.pops
        res["repeats"] = list(MON.repeats)
        res["ntokens"] = MON.ntokens
        res["files_mon"] = [{"path": self.relpath(fr["path"]), "ntokens": fr["ntokens"], "iterations": len(fr["pops"]),
                             "unmatched": sum(1 for p in fr["pops"] if p[3] is None),
                             "left": (fr["pops"][-1][2] if fr["pops"] else fr["ntokens"]),
                             "min_stop": min([p[1] for p in fr["pops"] if isinstance(p[1], int)], default=None)}
                            for fr in MON.files]
        res["max_ratio"] = round(CLOCK.max_ratio, 3)
        res["ticks"] = CLOCK.ticks
        res["lex_ticks"] = CLOCK.lex_ticks
        res["opens"] = sum(1 for e in self.log if e[0] == "open")
        self.ev("cli", [self.relpath(a) for a in op["argv"]], res["end"], res.get("exit"),
                sha(res["stdout"]), sha(res["stderr"]))
        return res

    def git_decision(self, path, git):
        """M-ignore: (ignored, matched rule) for a path as the code under test spelled it."""
        if not git:
            return False, None
        ap = os.path.normpath(os.path.join(os.getcwd(), path))
        root = os.path.realpath(self.scratch) if self.scratch else "/"
        ap = os.path.realpath(ap)
        rel = os.path.relpath(ap, root)
        return git_decide(rel, git_rules(git))

    def git_ignored(self, path, git):
        return self.git_decision(path, git)[0]


def mutable_containers():
    """Generic part of the state-vector probe: every list/dict/set that lives on a norminette module or class (not on
    an instance) - the places where state can survive from one file to the next. Order-independent summaries."""
    out = []
    for mname in sorted(m for m in sys.modules if m == "norminette" or m.startswith("norminette.")):
        mod = sys.modules.get(mname)
        if mod is None:
            continue
        for an, av in sorted(vars(mod).items()):
            if an.startswith("__"):
                continue
            if isinstance(av, (list, dict, set)):
                out.append((mname, an, _summ(av)))
            elif isinstance(av, type) and getattr(av, "__module__", None) == mname:
                for cn, cv in sorted(vars(av).items()):
                    if isinstance(cv, (list, dict, set)) and not cn.startswith("__"):
                        out.append((mname, an + "." + cn, _summ(cv)))
    return out


def _summ(v):
    try:
        if isinstance(v, dict):
            return ("dict", len(v), sha(repr(sorted((repr(k), repr(x)[:200]) for k, x in v.items()))))
        if isinstance(v, set):
            return ("set", len(v), sha(repr(sorted(repr(x)[:200] for x in v))))
        return ("list", len(v), sha(repr([repr(x)[:200] for x in v])))
    except Exception:  # noqa
        return ("?", -1, "")


def git_rules(git):
    """Ordered ignore rules of the model: [{"path": p, "neg": bool}…] (legacy key "ignored" = plain rules)."""
    rules = [{"path": p, "neg": False} for p in (git or {}).get("ignored", [])]
    rules += list((git or {}).get("rules", []))
    return rules


def git_decide(rel, rules):
    """(ignored, matched_rule) for a model-relative path under git's semantics for anchored path patterns:
    the last matching rule wins; a file below an excluded directory cannot be re-included."""
    parts = rel.split("/")
    for k in range(1, len(parts)):
        anc = "/".join(parts[:k])
        last = None
        for r in rules:
            if r["path"].rstrip("/") == anc:
                last = r
        if last is not None and not last["neg"]:
            return True, last
    last = None
    for r in rules:
        if r["path"].rstrip("/") == rel:
            last = r
    if last is None:
        return False, None
    return (not last["neg"]), last


def git_quote(path):
    """git's core.quotePath output quoting (default on): control bytes, `"`, `\\` and bytes >= 0x80 make the
    path be printed C-quoted with octal escapes."""
    b = path.encode("utf-8", "surrogateescape")
    need = any(c < 0x20 or c >= 0x7f or c in (0x22, 0x5c) for c in b)
    if not need:
        return path
    out = []
    for c in b:
        if c == 0x22:
            out.append('\\"')
        elif c == 0x5c:
            out.append("\\\\")
        elif c == 0x0a:
            out.append("\\n")
        elif c == 0x09:
            out.append("\\t")
        elif c < 0x20 or c >= 0x7f:
            out.append("\\%03o" % c)
        else:
            out.append(chr(c))
    return '"' + "".join(out) + '"'


def nlines(data):
    if isinstance(data, bytes):
        try:
            data = data.decode("utf-8")
        except UnicodeDecodeError:
            data = data.decode("latin-1")
    data = data.replace("\r\n", "\n").replace("\r", "\n")
    return data.count("\n") + (0 if data.endswith("\n") or data == "" else 1)


def nlines_src(fobj):
    try:
        s = fobj._source
        if s is None:
            return None
        return s.count("\n") + (0 if s.endswith("\n") or s == "" else 1)
    except Exception:
        return None


def execute(scenario, wall_s=10.0, wall_cap=30.0):
    return Executor(scenario, wall_s=wall_s, wall_cap=wall_cap).run()
