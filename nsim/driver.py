"""Command-line driver: runs one property's check (quick/thorough), a replay, or a self-test."""
import argparse
import faulthandler
import json
import os
import sys
import time
import traceback

from . import core, pool as poolmod, framework as fw

ENGINES = {
    "C04": ("nsim.engines.c04", "C04"),
    "C05": ("nsim.engines.c05", "C05"),
    "C06": ("nsim.engines.c06", "C06"),
    "C07": ("nsim.engines.c07", "C07"),
    "C08": ("nsim.engines.c08", "C08"),
    "C15": ("nsim.engines.c15", "C15"),
    "C16": ("nsim.engines.c16", "C16"),
}

COMPONENTS = {
    "real": ["argparse", "norminette.__main__.main", "glob/pathlib on a real scratch file system (/dev/shm)",
             "File", "Lexer", "Context", "Registry", "all rule modules", "both formatters"],
    "stub": ["git (in-process model SimGit; validated against the real binary in the thorough tier of C15)",
             "order returned by os.listdir(rules dir) and glob (real content, simulated order)",
             "bytes delivered by open() when a read fault is scheduled",
             "clock: tick counter on Context.peek_token / Lexer.raw_peek / Registry.run_rules"],
}


def load_engine(prop):
    import importlib
    mod, cls = ENGINES[prop]
    return getattr(importlib.import_module(mod), cls)


def do_replay(prop, path, out=print):
    with open(path) as fh:
        doc = json.load(fh)
    target = (doc["property"], doc["violation"]["clause"], doc["violation"]["site"])
    sc = {k: v for k, v in doc.items() if k not in ("nsim", "property", "engine", "seed", "run", "tree_id", "python",
                                                  "violation", "digest")}
    core.boot()
    E = load_engine(prop)
    with poolmod.Pool(int(os.environ.get("NSIM_WORKERS", "2"))) as p:
        eng = E(tier="quick", seed=doc.get("seed", 0), pool=p)
        vss, rs = eng.evaluate_many([sc])
    keys = [v.key for v in vss[0]]
    if target in keys:
        out(f"REPRODUCED property={prop} clause={target[1]} site={target[2]}")
        out(f"VIOLATION property={prop} replay={path}")
        return 1
    out(f"NOT-REPRODUCED property={prop} wanted={target} got={keys}")
    return 0


def main(argv):
    ap = argparse.ArgumentParser(prog="check")
    ap.add_argument("what")
    ap.add_argument("--tier", default=os.environ.get("VERIF_TIER", "quick"), choices=["quick", "thorough"])
    ap.add_argument("--replay")
    ap.add_argument("--seed", type=int, default=int(os.environ.get("VERIF_SEED", "0") or 0))
    ap.add_argument("--no-minimise", action="store_true")
    ap.add_argument("--digests-out")
    args = ap.parse_args(argv)
    faulthandler.enable()
    faulthandler.dump_traceback_later((10 if args.what == "selftest-sensitivity" else 3) * 3600, exit=True)
    if args.what.startswith("selftest"):
        from . import selftest
        return selftest.main(args)
    prop = args.what
    if prop not in ENGINES:
        print(f"unknown property {prop}")
        return 2
    if args.replay:
        try:
            return do_replay(prop, args.replay)
        except poolmod.HarnessError as e:
            print(f"HARNESS-ERROR {e}")
            return 2
    t0 = time.time()
    print(f"nsim check {prop} tier={args.tier} VERIF_SEED={args.seed} repo={core.REPO} tree={fw.tree_id()}")
    try:
        core.boot()
        E = load_engine(prop)
        eng = E(tier=args.tier, seed=args.seed)
        eng.setup()
        with poolmod.Pool() as p:
            eng.pool = p
            eng.run()
            t_run = time.time() - t0
            n_det, _ = eng.determinism_check()
            if os.environ.get("NSIM_LIST_SITES"):
                for k in sorted(eng.found, key=lambda k: (k[1], str(k[2]))):
                    v = eng.found[k]
                    print(f"SITE {eng.found_count[k]:6d} {k[1]} | {k[2]} | run {v.idx} {json.dumps(v.detail, default=str)[:160]}")
                if os.environ.get("NSIM_LIST_SITES") == "only":
                    return 0
            code, n_unlisted, known_hit = fw.conclude(eng, args.seed, minimise_budget=5.0 if args.no_minimise else 45.0)
            workers = p.workers
            total_runs = p.runs
    except poolmod.HarnessError as e:
        print(f"HARNESS-ERROR {e}")
        return 2
    except Exception:
        print("HARNESS-ERROR " + traceback.format_exc())
        return 2
    wall = time.time() - t0
    cov = eng.coverage() if hasattr(eng, "coverage") else {}
    doc = {
        "property_id": prop, "tier": args.tier, "seed": args.seed, "level": eng.level,
        "coverage": {
            "evaluations": eng.evaluations,
            "distinct_nontrivial": len(eng.distinct),
            "rule": getattr(eng, "rule_text", ""),
            "samples": eng.samples[:5] or [{"note": "no sample captured"}],
            "runs_per_hour": int(eng.evaluations / max(t_run, 1e-6) * 3600),
            "seeds_per_hour_note": "every run has its own PRNG derived from (check, VERIF_SEED, run index): derived seeds/hour == runs/hour",
            "sim_ticks_per_hour": int(eng.sim_ticks_total / max(t_run, 1e-6) * 3600),
            "child_processes_forked": total_runs,
            "fault_fired": dict(sorted(eng.fired.items())),
            "never_fired": sorted(getattr(eng, "expected_kinds", set()) - set(k for k, v in eng.fired.items() if v)),
            "components": COMPONENTS,
            "max_budget_ratio": round(eng.max_ratio, 2),
            "sim_ticks_total": eng.sim_ticks_total,
            "determinism_sample": f"{n_det} runs of this invocation re-executed: identical event-log digests",
            "budget_ratio_limit": 1000,
            "known_findings_hit": [k.get("what") for k in known_hit],
            "distinct_violation_sites": len(eng.found),
            "workers": workers, "hashseeds": getattr(eng, "hashseeds", [0]),
            "stats": eng.stats,
            "exhaustive": False,
            **cov,
        },
        "assumptions": getattr(eng, "assumptions", []),
        "wall_s": round(wall, 2),
        "violations": n_unlisted,
    }
    if args.digests_out:
        with open(args.digests_out, "w") as fh:
            json.dump({str(k): v for k, v in sorted(eng.digests.items())}, fh)
        print(f"digests written: {len(eng.digests)}")
        return code
    path = fw.write_evidence(prop, doc)
    print(f"{prop}: runs={eng.evaluations} distinct={len(eng.distinct)} sites={len(eng.found)} unlisted={n_unlisted} "
          f"known={len(known_hit)} wall={wall:.1f}s evidence={path} exit={code}")
    return code
