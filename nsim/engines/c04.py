"""C04 - exit status and per-file verdict agree with the diagnostics: cli-sim (DESIGN 4.4).

The run loop of main() over a *sequence* of files is a small sequential system with state (the
work list, the loop variable that survives the loop, the early exit on a fatal file). The simulator
chooses the sequence, its order (argument order or the glob seam's permutation), the mode and, in a
separate configuration, I/O errors at the read seam. Oracle: the executable model M-run fed with each
file's R-alone outcome."""
import copy
import itertools
import os
import re

from .. import core
from ..framework import Engine, Violation, classify, generic_shrinkers
from ..pools import Pools
from .common import ref_api, file_of, strip_ansi, tree_files, norm_rel

CLASSES = ["clean", "notice", "erroneous", "fatal"]


def path_args(argv):
    """The positional (path) arguments of an argv built by this engine."""
    out = []
    skip = False
    for a in argv:
        if skip:
            skip = False
            continue
        if a in ("-f", "-R"):
            skip = True
            continue
        if a.startswith("-"):
            continue
        out.append(a)
    return out
VERDICT_RE = re.compile(r"^(?P<name>[^\n]+?): (?P<v>OK|Error)!$")


def parse_stdout(out):
    """[(name, verdict, fatal_msg|None)] from stdout: the human-readable report, or (under -f json) the human fatal
    lines followed by the JSON document."""
    text = strip_ansi(out)
    k = text.find('{"files":')
    if k >= 0 and (k == 0 or text[k - 1] == "\n"):
        import json
        res = parse_stdout(text[:k]) if k else []
        try:
            doc = json.loads(text[k:])
            for jf in doc["files"]:
                res.append((str(jf["path"]).rsplit("/", 1)[-1], jf["status"], None))
        except Exception:  # noqa - an unparsable document simply yields no verdicts (reported as missing verdict lines)
            pass
        return res
    lines = text.split("\n")
    res = []
    i = 0
    while i < len(lines):
        m = VERDICT_RE.match(lines[i])
        if m:
            fatal = None
            if m.group("v") == "Error" and i + 1 < len(lines) and lines[i + 1].startswith("\t"):
                fatal = lines[i + 1][1:]
            res.append((m.group("name"), m.group("v"), fatal))
        i += 1
    return res


class C04(Engine):
    prop = "C04"
    name = "cli-sim"
    level = "exploration"
    expected_kinds = {"mode_explicit", "mode_dir", "mode_cwd", "listing_perm", "fatal_mid_run", "eio", "eacces", "enoent", "gitignore", "gitignore_dropped_a_file", "value_option_before_paths", "strict_stdout", "strict_stdout_undecodable_source", "fd_limit", "git_arg_max"}
    rule_text = ("All class sequences of length 0..4 over {clean, notice-only, erroneous, fatal} (341) x 3 modes (explicit paths, one "
                 "directory argument, no argument/cwd), each instantiated with k seeded draws of concrete files (class membership "
                 "measured with R-alone); lengths 5..12 sampled; every sampled multiset in up to 24 orders; directory modes get their "
                 "order from explicit permutations of the glob seam. Separate io-error configuration: one failing open() per run, "
                 "relaxed oracle. Non-trivial = at least one file selected or the empty selection itself; distinct = distinct "
                 "(mode, class sequence) pairs.")
    assumptions = ["M-run: OK iff R-alone has no Error-level diagnostic; exit 0 iff all OK; a fatal file => a line naming it and non-zero "
                   "exit; empty selection => no internal exception (its status is not asserted)",
                   "the fatal line `<path>: Error!` + tab line counts as that file's verdict line",
                   "io-error configuration asserts only: never exit 0 unless every selected file received an OK! line"]

    def setup(self):
        q = self.tier == "quick"
        self.pools = Pools(self.seed, n_gen=10 if q else 60, n_viol=10 if q else 60, n_cut=0, corpus_limit=6 if q else 40, tag="c04", enc_family=True)
        self.pools.register()

    def prepare(self):
        P = self.pools
        P.measure(self.pool)
        self.members = {c: [f for f in sorted(P.files) if P.cls[f] == c and len(P.files[f]["content"]) < 5000] for c in CLASSES}
        for c in CLASSES:
            if not self.members[c]:
                raise RuntimeError(f"no pool member of class {c}")
            self.count("pool_classes", c, len(self.members[c]))

    def instantiate(self, rng, seq, mode, idx, io_fault=None, git=True):
        P = self.pools
        fids = []
        g = core.derive_rng("c04.git", self.seed, idx)      # the stream of the environment choices (stdout, git, options)
        strict = g.random() < 0.2
        for c in seq:
            cand = self.members[c]
            if strict and g.random() < 0.5:
                # with a strict stdout, prefer the files whose bytes are not UTF-8 (legacy-encoding family)
                cand = [f for f in cand if P.files[f]["name"].startswith("enc_")] or cand
            if fids and rng.random() < 0.3:
                # name-keyed state would show between two different files of one name (or one stem): prefer such a member
                names = set(P.files[f]["name"] for f in fids)
                stems = set(n.rsplit(".", 1)[0] for n in names)
                same = [f for f in cand if f not in fids and (P.files[f]["name"] in names or P.files[f]["name"].rsplit(".", 1)[0] in stems)]
                if same:
                    cand = same
            fids.append(cand[rng.randrange(len(cand))])
        tree = {}
        paths = []
        root = tree
        prefix = ""
        if mode in ("dir", "cwd"):
            tree["src"] = {}
            root = tree["src"]
            prefix = "src/" if mode == "dir" else ""
        for j, fid in enumerate(fids):
            nm = P.files[fid]["name"]
            if mode == "explicit" and j > 0 and rng.random() < 0.12 and fids[j - 1] == fid:
                paths.append(paths[-1])       # the same path mentioned twice
                continue
            root[f"d{j}"] = {nm: "@" + fid}
            paths.append(f"{prefix}d{j}/{nm}")
        op = {"op": "cli", "argv": [], "cwd": "."}
        if mode == "explicit" and paths and rng.random() < 0.2:
            # the same source mentioned again, possibly under another spelling, anywhere in the list
            j = rng.randrange(len(paths))
            dup = paths[j] if rng.random() < 0.6 else "./" + paths[j]
            k = rng.randrange(len(paths) + 1)
            paths.insert(k, dup)
            fids.insert(k, fids[j] if len(fids) == len(paths) - 1 else fids[min(j, len(fids) - 1)])
        if mode == "explicit":
            op["argv"] = list(paths)
        elif mode == "dir":
            op["argv"] = ["src"]
            op["glob_perms"] = [rng.randrange(1 << 30) if rng.random() < 0.8 else "rev"]
        else:
            op["cwd"] = "src"
            op["glob_perms"] = [rng.randrange(1 << 30) if rng.random() < 0.8 else None]
        k = rng.random()
        if k < 0.3:
            op["argv"] = ["--no-colors"] + op["argv"]
        elif k < 0.45:
            op["argv"] = ["-f", "json"] + op["argv"]
        elif k < 0.5:
            op["argv"] = ["-o"] + op["argv"]
        sc = {"kind": "run", "mode": mode, "seq": list(seq), "tree": tree, "selected": list(zip(paths, fids)), "ops": [op]}
        if git and not io_fault and paths and g.random() < 0.22:
            # --use-gitignore (stub git, S4): the files git ignores are not part of the run; everything else as M-run says
            rels = sorted(set(("src/" if mode == "cwd" else "") + os.path.normpath(p) for p in paths))
            rules = []
            for rel in rels:
                k2 = g.random()
                if k2 < 0.35:
                    rules.append({"path": rel, "neg": False})
                elif k2 < 0.45:
                    rules.append({"path": rel.rsplit("/", 1)[0], "neg": False})     # the directory holding it
            if rules and g.random() < 0.25:
                rules.append({"path": rules[g.randrange(len(rules))]["path"], "neg": True})
            for k2, r in enumerate(rules):
                r["line"] = k2 + 1
            op["argv"] = ["--use-gitignore"] + op["argv"]
            op["git"] = {"rules": rules, "fault": None}
            sc["gitignore"] = True
        if g.random() < 0.12:
            # an option that takes a value, right before the paths (a compatibility word no rule knows: it changes no diagnostic,
            # C16 checks that; what matters here is that the paths after it are still the paths)
            k3 = len(op["argv"]) - len(path_args(op["argv"]))
            op["argv"] = op["argv"][:k3] + ["-R", "NoSuchCompatWord"] + op["argv"][k3:]
            sc["value_option_before_paths"] = True
        if len(fids) >= 8 and g.random() < 0.6:
            # S10: a descriptor limit (ulimit -n) only a few above what the process has open when main() starts: a run may
            # analyse any number of files as long as it does not hold them all open
            op["fd_headroom"] = 6
            sc["fd_limit"] = True
        if strict:
            # S6: standard output as it is under an ordinary UTF-8 locale: a stream that refuses what is not Unicode text
            op["stdout"] = "strict"
            sc["strict_stdout"] = True
        if io_fault:
            kind, call = io_fault
            op["faults"] = [{"seam": "open", "call": call, "kind": kind}]
            sc["kind"] = "ioerr"
        return sc

    def scenarios(self):
        q = self.tier == "quick"
        k = 2 if q else 12
        idx = 0
        for L in range(0, 5 if q else 6):       # thorough: all 1 365 class sequences up to length 5
            for seq in itertools.product(CLASSES, repeat=L):
                for mode in ("explicit", "dir", "cwd"):
                    for j in range(k if L < 5 else 3):
                        rng = core.derive_rng("c04.seq", self.seed, idx)
                        yield idx, self.instantiate(rng, seq, mode, idx)
                        idx += 1
        # longer sequences, and every order (<= 24) of sampled multisets
        n_long = 150 if q else 3000
        base = 1_000_000
        for i in range(n_long):
            rng = core.derive_rng("c04.long", self.seed, i)
            L = rng.randrange(5, 13)
            w = [0.45, 0.15, 0.3, 0.1]
            seq = rng.choices(CLASSES, weights=w, k=L)
            mode = ("explicit", "dir", "cwd")[rng.randrange(3)]
            yield base + i, self.instantiate(rng, seq, mode, base + i)
        # very long runs around the limits of an 8-bit process status: 255, 256, 257 (and 512) failing files
        base = 1_500_000
        small = {c: sorted(self.members[c], key=lambda f: len(self.pools.files[f]["content"]))[:3] for c in CLASSES}
        k = 0
        for nbad in ([255, 256, 257] if q else [64, 255, 256, 257, 511, 512, 513]):
            for badcls in (("erroneous",) if q else ("erroneous", "fatal")):
                rng = core.derive_rng("c04.huge", self.seed, k)
                seq = [badcls] * nbad + ["clean", "notice"]
                rng.shuffle(seq)
                P = self.pools
                tree = {"src": {}}
                paths = []
                for j, c in enumerate(seq):
                    fid = small[c][j % len(small[c])]
                    tree["src"][f"d{j}"] = {P.files[fid]["name"]: "@" + fid}
                    paths.append((f"src/d{j}/{P.files[fid]['name']}", fid))
                mode = "dir" if k % 2 == 0 else "explicit"
                op = {"op": "cli", "argv": ["src"] if mode == "dir" else [p for p, _ in paths], "cwd": ".", "fd_headroom": 8}
                yield base + k, {"kind": "run", "mode": mode, "seq": ["…%d files" % len(seq)], "tree": tree, "selected": paths, "fd_limit": True, "ops": [op]}
                k += 1
        # ... and a large selection under --use-gitignore with long paths: the peer git accepts an argument vector only up to
        # the limit execve derives from the stack size (here 128 KiB, what `ulimit -s 512` gives)
        for nfiles in ([400] if q else [400, 900]):
            rng = core.derive_rng("c04.hugegit", self.seed, nfiles)
            P = self.pools
            long_a, long_b = "a" * 200, "b" * 180
            tree = {"src": {long_a: {long_b: {}}}}
            paths = []
            seq = ["clean"] * (nfiles - 2) + ["notice", "clean"]
            for j, c in enumerate(seq):
                fid = small[c][j % len(small[c])]
                tree["src"][long_a][long_b][f"d{j}"] = {P.files[fid]["name"]: "@" + fid}
                paths.append((f"src/{long_a}/{long_b}/d{j}/{P.files[fid]['name']}", fid))
            rules = [{"path": paths[k2][0], "neg": False, "line": n + 1} for n, k2 in enumerate(sorted(rng.sample(range(nfiles), 5)))]
            op = {"op": "cli", "argv": ["--use-gitignore", "src"], "cwd": ".", "git": {"rules": rules, "fault": None, "arg_max": 131072}}
            yield base + 500 + nfiles, {"kind": "run", "mode": "dir", "seq": ["…%d files" % nfiles], "tree": tree, "selected": paths,
                                        "gitignore": True, "arg_max": True, "ops": [op]}
        n_multi = 25 if q else 400
        base = 2_000_000
        idx = base
        for i in range(n_multi):
            rng = core.derive_rng("c04.multi", self.seed, i)
            L = rng.randrange(2, 5)
            ms = rng.choices(CLASSES, weights=[0.35, 0.2, 0.3, 0.15], k=L)
            orders = sorted(set(itertools.permutations(ms)))[:24]
            # same concrete files in every order
            P = self.pools
            pick = {}
            chosen = []
            for c in ms:
                chosen.append(self.members[c][rng.randrange(len(self.members[c]))])
            for order in sorted(set(itertools.permutations(range(L))))[:24]:
                tree = {}
                paths = []
                for j in order:
                    fid = chosen[j]
                    tree[f"d{j}"] = {P.files[fid]["name"]: "@" + fid}
                    paths.append((f"d{j}/{P.files[fid]['name']}", fid))
                yield idx, {"kind": "run", "mode": "explicit", "seq": [ms[j] for j in order], "tree": tree,
                            "selected": paths, "ops": [{"op": "cli", "argv": [p for p, _ in paths], "cwd": "."}]}
                idx += 1
        # io-error configuration
        n_io = 200 if q else 4000
        base = 3_000_000
        for i in range(n_io):
            rng = core.derive_rng("c04.io", self.seed, i)
            L = rng.randrange(1, 5)
            seq = rng.choices(CLASSES[:3], k=L)
            mode = ("explicit", "dir", "cwd")[rng.randrange(3)]
            kind = ("eio", "eacces", "enoent")[rng.randrange(3)]
            yield base + i, self.instantiate(rng, seq, mode, base + i, io_fault=(kind, rng.randrange(L)))

    def refs_needed(self, sc):
        return [ref_api(sc, fid) for fid in sorted(set(fid for _, fid in sc.get("selected", [])))]

    # ---- M-run ------------------------------------------------------------------------------------------
    def judge(self, sc, res, refs):
        vs = []
        o = res["ops"][0]
        sel = sc.get("selected", [])
        # the model only needs what is still in the tree (minimisation may delete entries)
        tf = dict(tree_files(sc["tree"]))
        cwd = sc["ops"][0].get("cwd", ".")
        mode = sc["mode"]
        if mode == "explicit":
            argv = path_args(sc["ops"][0]["argv"])
            sel = [(a, tf[norm_rel(a, cwd)]) for a in argv if norm_rel(a, cwd) in tf]
            if len(sel) != len(argv):
                return []          # a path argument no longer exists: outside M-run (C15's matter)
        else:
            sel = [(p, fid) for p, fid in sorted(tf.items())]
        if "--use-gitignore" in sc["ops"][0]["argv"]:
            rules = core.git_rules(sc["ops"][0].get("git") or {})
            sel = [(p, fid) for p, fid in sel
                   if not core.git_decide(norm_rel(p, cwd) if mode == "explicit" else p, rules)[0]]
        alone = {}
        for p, fid in sel:
            key, _ = ref_api(sc, fid)
            r = refs[key]
            if r.get("killed"):
                return []
            alone[fid] = r["ops"][0]
        classes = [classify(alone[fid]) for _, fid in sel]
        if any(c in ("internal", "hang", "slow") for c in classes):
            return []              # C05's matter; M-run says nothing
        seqdesc = f"mode={mode} classes={classes}"

        def V(clause, site, **d):
            d["sequence"] = classes if len(classes) <= 12 else classes[:12] + [f"... {len(classes)} files"]
            d["mode"] = mode
            d["stdout_head"] = strip_ansi(o.get("stdout", ""))[:200]
            return Violation(self.prop, clause, site, d)
        end = o.get("end")
        if sc["kind"] == "ioerr":
            ex = o.get("exit")
            if end == "exit" and ex == 0:
                parsed = parse_stdout(o.get("stdout", ""))
                oks = sum(1 for _, v, _ in parsed if v == "OK")
                if oks < len(sel):
                    vs.append(V("C04.io-error-never-exit-0", f"{sc['ops'][0]['faults'][0]['kind']}: exit 0 with {oks} OK! lines for {len(sel)} files"))
            return vs
        if end in ("hang", "slow", "invalid-scenario"):
            return []
        if end == "internal":
            if not sel:
                vs.append(V("C04.e-empty-selection-ends-cleanly", f"{o.get('exc')} with an empty selection", exc=o.get("excmsg")))
            else:
                vs.append(V("C04.run-ends-with-status", f"{o.get('exc')} @ {core.site_key(o.get('site'))}", exc=o.get("excmsg")))
            return vs
        ex = o.get("exit")
        if end == "returned":
            ex = 0
        parsed = parse_stdout(o.get("stdout", ""))
        # expected verdict multiset
        import collections
        want = collections.Counter()
        has_fatal = False
        for (p, fid), c in zip(sel, classes):
            if c == "fatal":
                has_fatal = True
                want[("fatal", norm_rel(p, cwd) if mode == "explicit" else None, file_of(sc, fid)["name"])] += 1
            else:
                want[(file_of(sc, fid)["name"], "Error" if c == "erroneous" else "OK")] += 1
        got = collections.Counter()
        fatal_named = []
        for name, v, fatal in parsed:
            if fatal is not None:
                fatal_named.append(name)
            else:
                got[(name, v)] += 1
        # (d) fatal file reported naming that file, status non-zero
        if has_fatal:
            fatal_paths = [(norm_rel(p, cwd), file_of(sc, fid)["name"]) for (p, fid), c in zip(sel, classes) if c == "fatal"]
            named_ok = 0
            for nm in fatal_named:
                base = nm.rsplit("/", 1)[-1]
                if any(base == b for _, b in fatal_paths):
                    named_ok += 1
            if named_ok == 0:
                vs.append(V("C04.d-fatal-file-named", "no fatal line names the unparsable file"))
            if ex in (0, None):
                vs.append(V("C04.d-fatal-nonzero-status", f"fatal file in the run but exit status {ex}"))
            # (a) every file still gets exactly one verdict line
            n_fatal = len(fatal_paths)
            if named_ok != n_fatal:
                vs.append(V("C04.a-one-verdict-per-file", "fewer fatal lines than fatally unparsable files" if named_ok < n_fatal
                            else "more fatal lines than fatally unparsable files", fatal_files=n_fatal, fatal_lines=named_ok))
        want_plain = collections.Counter({k: v for k, v in want.items() if k[0] != "fatal"})
        if got != want_plain:
            missing = want_plain - got
            extra = got - want_plain
            # distinguish a wrong verdict (b) from a missing/duplicated line (a)
            names_want = collections.Counter(k[0] for k in want_plain.elements())
            names_got = collections.Counter(k[0] for k in got.elements())
            if names_want != names_got:
                what = "missing" if (names_want - names_got) else "extra"
                ctx = "with a fatal file in the run" if has_fatal else "no fatal file"
                vs.append(V("C04.a-one-verdict-per-file", f"verdict lines {what} ({ctx})",
                            missing=sorted(map(str, missing.elements()))[:5], extra=sorted(map(str, extra.elements()))[:5]))
            else:
                kinds = sorted(set(f"{self.class_of_name(sc, sel, classes, k[0])} file reported {k[1]}!" for k in extra.elements()))
                vs.append(V("C04.b-verdict-iff-no-error", "; ".join(kinds), missing=sorted(map(str, missing.elements()))[:5]))
        # (c) exit status 0 iff every verdict OK
        all_ok = all(c in ("clean", "notice") for c in classes)
        if not has_fatal:
            if all_ok and ex not in (0, None) and sel:
                first = "notice" if "notice" in classes else "clean"
                vs.append(V("C04.c-exit-status", f"all files OK ({'with' if 'notice' in classes else 'no'} Notices) but exit status {ex}"))
            if not all_ok and ex in (0, None):
                vs.append(V("C04.c-exit-status", f"an erroneous file in the run but exit status {ex}",
                            last_file=classes[-1] if mode == "explicit" else "order chosen by the glob seam"))
        return vs

    def class_of_name(self, sc, sel, classes, name):
        for (p, fid), c in zip(sel, classes):
            if file_of(sc, fid)["name"] == name:
                return c
        return "?"

    def observe(self, idx, sc, r):
        o = r["ops"][0]
        self.fire("mode_" + sc["mode"])
        if sc.get("fd_limit"):
            self.fire("fd_limit")
        if sc.get("arg_max"):
            self.fire("git_arg_max")
        if sc.get("strict_stdout"):
            self.fire("strict_stdout")
            if any(self.pools.files.get(fid, {}).get("name", "").startswith("enc_") for _, fid in sc.get("selected", [])):
                self.fire("strict_stdout_undecodable_source")
        if sc.get("value_option_before_paths"):
            self.fire("value_option_before_paths")
        if "--use-gitignore" in sc["ops"][0]["argv"]:
            self.fire("gitignore")
            rules = core.git_rules(sc["ops"][0].get("git") or {})
            cwd = sc["ops"][0].get("cwd", ".")
            if any(core.git_decide(norm_rel(p, cwd) if sc["mode"] == "explicit" else ("src/" + p if sc["mode"] == "cwd" else p), rules)[0]
                   for p, _ in sc.get("selected", [])):
                self.fire("gitignore_dropped_a_file")
        if sc["ops"][0].get("glob_perms") and sc["ops"][0]["glob_perms"][0] is not None:
            self.fire("listing_perm")
        if sc["kind"] == "ioerr":
            self.fire(sc["ops"][0]["faults"][0]["kind"])
            self.count("ioerr_ends", f"{o.get('end')}:{o.get('exit') if o.get('end') == 'exit' else o.get('exc')}")
        else:
            self.distinct.add((sc["mode"], tuple(sc["seq"])))
            if "fatal" in sc["seq"] and len(sc["seq"]) > 1:
                self.fire("fatal_mid_run")
            bad = [i for i, c in enumerate(sc["seq"]) if c in ("erroneous", "fatal")]
            self.firstbad.add((bad[0] if bad else -1, len(sc["seq"])))
        if len(self.samples) < 5 and idx % 499 == 7:
            self.samples.append({"run": idx, "mode": sc["mode"], "classes": sc["seq"], "argv": sc["ops"][0]["argv"],
                                 "glob_perms": sc["ops"][0].get("glob_perms"), "exit": o.get("exit"),
                                 "stdout_head": strip_ansi(o.get("stdout", ""))[:160]})

    def run(self):
        self.firstbad = set()
        self.prepare()
        self.run_bulk(self.scenarios(), chunk=8)
        self.recheck_killed()
        self.fidelity()
        self.stats["distinct_first_non_ok_position_x_length"] = len(self.firstbad)

    def coverage(self):
        return {"fidelity_subprocess_runs": getattr(self, "fidelity_runs", 0),
                "exhaustive_part": ("all 341 class sequences of length 0..4 x 3 modes were executed (k concrete draws each)" if self.tier == "quick"
                                    else "all 1365 class sequences of length 0..5 x 3 modes were executed (k concrete draws each)")}

    def fidelity(self):
        from ..fidelity import fidelity_sample
        scs = []
        # directory modes only with <= 1 file: the real scandir order is not the simulated order
        for i, (seq, mode) in enumerate([(("clean",), "dir"), (("erroneous", "clean"), "explicit"), (("notice",), "cwd"),
                                         (("clean", "fatal"), "explicit"), ((), "dir"), (("clean", "erroneous", "notice"), "explicit")]):
            rng = core.derive_rng("c04.fid", self.seed, i)
            sc = self.instantiate(rng, seq, mode, i, git=False)      # the real git has no repository there
            sc["ops"][0]["glob_perms"] = None
            scs.append(sc)
        bad = fidelity_sample(self, scs)
        self.fidelity_runs = len(scs)
        if bad:
            raise RuntimeError(f"fidelity sample disagrees with the real subprocess: {bad[:1]}")

    def shrinkers(self, sc, target):
        # drop one selected file (explicit: drop the argument; directory modes: delete the tree entry)
        op = sc["ops"][0]
        if sc["mode"] == "explicit":
            pa = path_args(op["argv"])
            for j in range(len(pa)):
                c = copy.deepcopy(sc)
                # delete the j-th positional argument
                seen = -1
                argv = c["ops"][0]["argv"]
                skip = False
                for i, a in enumerate(argv):
                    if skip:
                        skip = False
                        continue
                    if a in ("-f", "-R"):
                        skip = True
                        continue
                    if a.startswith("-"):
                        continue
                    seen += 1
                    if seen == j:
                        del argv[i]
                        break
                yield c
        else:
            for p, fid in tree_files(sc["tree"]):
                c = copy.deepcopy(sc)
                node = c["tree"]
                parts = p.split("/")
                for q in parts[:-1]:
                    node = node[q]
                del node[parts[-1]]
                yield c
        if op.get("glob_perms"):
            c = copy.deepcopy(sc)
            c["ops"][0]["glob_perms"] = None
            yield c
        for j in range(len((op.get("git") or {}).get("rules", []))):
            c = copy.deepcopy(sc)
            del c["ops"][0]["git"]["rules"][j]
            yield c
        for j, a in enumerate(op["argv"]):
            if a in ("--no-colors", "-o"):
                c = copy.deepcopy(sc)
                del c["ops"][0]["argv"][j]
                yield c
            elif a in ("-f", "-R"):
                c = copy.deepcopy(sc)
                del c["ops"][0]["argv"][j:j + 2]
                yield c
