"""C05 - every input gets an answer: read-fault-sim (DESIGN 4.5).

The read of the source is performed by an unreliable store / a writer racing the reader: the bytes
delivered are a prefix, a torn or a corrupted version of a workload program. The fault point is
enumerated per workload program (every token boundary); liveness is decided on the simulated clock."""
import base64
import copy

from .. import core, faults
from ..framework import Engine, Violation, classify, generic_shrinkers
from ..pools import Pools
from .common import file_of

LEXEMES = ["int", "char", "void", "return", "if", "else", "while", "for", "struct", "typedef", "enum", "union", "static",
           "const", "sizeof", "do", "switch", "case", "default", "break", "goto", "unsigned", "long",
           "(", ")", "{", "}", "[", "]", ";", ",", ":", "?", "=", "==", "+", "-", "*", "/", "%", "&", "|", "^", "!", "~",
           "<", ">", "<<", ">>", "->", ".", "...", "++", "--", "+=", "&&", "||", "#", "##",
           "x", "foo", "t_x", "g_v", "A", "0", "42", "0x", "0x1p", "1e", "1.5f", ".5", "'a'", "'", "\"s\"", "\"", "'\\",
           "//", "/*", "*/", "\\\n", "??/\n", "<:", ":>", "<%", "%>", "%:", "??=", "??(", "@", "$", "`", "\\", "\x00", "\x7f",
           "é", "世", "\n", "\t", " ", "\r", "\r\n", "\x0c", "#define", "#include", "#if", "#endif", "#else",
           "defined", "L'a'", "u8\"x\"", "__attribute__", "asm"]

def workload_frame():
    from ..workload import FRAME
    return FRAME


REDUCED = "a0'\"\\\n/*.x?+=:"


class C05(Engine):
    prop = "C05"
    name = "read-fault-sim"
    level = "fault_enumeration"
    expected_kinds = {"prefix_tok", "prefix_chr", "tok_del", "tok_rep", "tok_ins", "tok_swap", "edit_pair", "flip",
                      "non_ascii", "bad_utf8", "lex_exhaustive", "lex_seeded", "lex_long_run", "pipeline_long_run", "pipeline_deep_nest", "cli_level", "prefix_line", "tok_rep_kw", "tok_rep_macro", "line_tail_lost", "undamaged", "fs_shape"}
    rule_text = ("Every base program (hand-written specials, generated conforming/violating files, repository samples; the quick tier "
                 "caps the volume) x both file types x EVERY token boundary (prefix_tok), every line boundary (prefix_line), every lost "
                 "line tail, every single-token deletion, the middle of every multi-character token, every identifier of every "
                 "preprocessor line replaced by a keyword and every token of those lines by a macro defined in the file; seeded token "
                 "replace/insert/swap/pairs, byte flips, non-ASCII and invalid UTF-8; every special member undamaged under both types; the "
                 "same damage through main(); the tokenizer alone on ALL strings of length <=4 over a 14-character alphabet, seeded lexeme "
                 "sequences, long runs of every character class; deep nesting (thousands of levels). A run is non-trivial when the "
                 "delivered content differs from the base program and the analysis reached the rule loop; distinct = distinct (file type, "
                 "fault kind, type of the last token delivered, last recognised statement, scope at the end) contexts.")
    assumptions = ["liveness deadline: at most 1000*(tokens+50) ticks between two progress events (pop_tokens / token emission), "
                   "400*(chars+10) raw_peek ticks for the lexer; wall backstop 20 s per child for loops that do not tick",
                   "oracle does not say which of verdict/fatal a damaged file gets (the statement allows both)",
                   "in-process main() stands for the command line; a fidelity sample runs the real `python -m norminette`"]

    def setup(self):
        q = self.tier == "quick"
        self.pools = Pools(self.seed, n_gen=12 if q else 150, n_viol=12 if q else 150, n_cut=0,
                           corpus_limit=22 if q else None, tag="c05")
        self.pools.register()

    # ---- scenario construction ---------------------------------------------------------------
    def derived(self, base, name, splices, desc, kind, extra=None):
        f = {"name": name, "base": base, "splices": splices, "fault_desc": desc}
        if extra:
            f.update(extra)
        return {"kind": "fault", "fault": kind, "desc": desc, "files": {"x": f}, "ops": [{"op": "api", "file": "x"}]}

    def bases(self):
        P = self.pools
        q = self.tier == "quick"
        out = []
        # small hand-written members first ...
        for g in ("special_zoo", "special_odd", "special_legal", "special_literal", "special_clean", "special_notice"):
            ids = P.groups.get(g, [])
            if g in ("special_literal",) and q:
                r = core.derive_rng("c05." + g, self.seed, 0)
                ids = sorted(r.sample(ids, 8))
            out += ids
        # ... then generated, repository and violating programs in turn, so that the quick tier's volume cap cuts all three evenly
        groups = [list(P.groups.get(g, [])) for g in ("gen", "corpus", "viol")]
        k = 0
        while any(groups):
            g = groups[k % 3]
            if g:
                out.append(g.pop(0))
            k += 1
        return out

    def scenarios(self):
        P = self.pools
        q = self.tier == "quick"
        idx = 0
        n_bases = 0
        for b in self.bases():
            f = P.files[b]
            content = f["content"]
            if len(content) > 8192 and q:
                continue
            if q and idx > 31000:
                self.count("quick_cap", "base programs not enumerated (volume cap of the quick tier)")
                continue
            stem, ext = f["name"].rsplit(".", 1)
            other = "h" if ext == "c" else "c"
            names = [f["name"], f"{stem}.{other}"]
            spans = faults.token_offsets(core.N, f["name"], content)
            if not spans:
                continue
            n_bases += 1
            n = len(spans)
            L = len(content)
            step = 1
            if q and n > 400:
                step = 2
            # hand-written specials all start with the same 42 header: its fault points are enumerated for the generated and
            # repository programs, not again for each of them
            k0 = 0
            if P.meta[b]["group"].startswith("special_") and content.startswith(workload_frame()):
                k0 = sum(1 for a, e, t in spans if content.count("\n", 0, a) < 11)
            rng = core.derive_rng("c05.edits", self.seed, idx)
            # prefix at every token boundary, both file types
            for nm in names:
                for k in range(k0, n + 1, step):
                    cut = spans[k][0] if k < n else L
                    if k == n and cut == L and nm == f["name"]:
                        pass   # the undamaged file itself is part of the enumeration (k = n)
                    yield idx, self.derived(b, nm, [[cut, L, ""]], f"prefix_tok({k})", "prefix_tok")
                    idx += 1
            # the tail of a line lost: prefix at every token boundary inside a line, newline-terminated
            for k in range(k0, n, step):
                cut = spans[k][0]
                if cut > 0 and content[cut - 1] != "\n":
                    yield idx, self.derived(b, names[k % 2], [[cut, L, "\n"]], f"line_tail_lost({k})", "line_tail_lost")
                    idx += 1
            # delete every token, own type (other type sampled)
            for k in range(k0, n, step):
                a, e, _ = spans[k]
                nm = names[0] if (q or k % 2 == 0) else names[1]
                yield idx, self.derived(b, nm, [[a, e, ""]], f"tok_del({k})", "tok_del")
                idx += 1
            # middle of every multi-character token
            for k in range(k0, n, step):
                a, e, t = spans[k]
                if e - a >= 2:
                    mid = a + (e - a) // 2
                    yield idx, self.derived(b, names[0], [[mid, L, ""]], f"prefix_chr({mid})", "prefix_chr")
                    idx += 1
                    if e - a >= 3 and t in ("STRING", "CHAR_CONST", "MULT_COMMENT", "COMMENT", "CONSTANT"):
                        yield idx, self.derived(b, names[1], [[a + 1, L, ""]], f"prefix_chr({a + 1})", "prefix_chr")
                        idx += 1
            # short read at every line boundary (a torn write typically ends on a line), both file types
            for nm in names:
                for k2 in range(k0, n):
                    if spans[k2][2] == "NEWLINE":
                        yield idx, self.derived(b, nm, [[spans[k2][1], L, ""]], f"prefix_line(tok {k2})", "prefix_line")
                        idx += 1
            # an identifier replaced by a keyword token: every identifier on a preprocessor line, the others sampled
            KW = ["NULL", "int", "inline", "return", "sizeof", "struct", "if", "defined", "void", "const"]
            line_has_hash = set()
            lineno = 0
            cur = []
            for k2 in range(n):
                cur.append(k2)
                if spans[k2][2] == "NEWLINE" or k2 == n - 1:
                    if any(spans[j][2] == "HASH" for j in cur):
                        line_has_hash.update(cur)
                    cur = []
            # every token of a preprocessor line replaced by a macro name defined in this file (macros may stand anywhere)
            macros = []
            for k2 in range(n - 2):
                if spans[k2][2] == "IDENTIFIER" and content[spans[k2][0]:spans[k2][1]] == "define" and k2 in line_has_hash:
                    for k3 in range(k2 + 1, min(k2 + 4, n)):
                        if spans[k3][2] == "IDENTIFIER":
                            macros.append(content[spans[k3][0]:spans[k3][1]])
                            break
            macros = list(dict.fromkeys(macros))[:2]        # the first two macros, in definition order
            if macros:
                for k2 in sorted(line_has_hash):
                    if spans[k2][2] in ("SPACE", "TAB", "NEWLINE", "HASH"):
                        continue
                    a, e, _ = spans[k2]
                    mname = macros[k2 % len(macros)]
                    if content[a:e] == mname:
                        continue
                    yield idx, self.derived(b, names[k2 % 2], [[a, e, mname]], f"tok_rep_macro({k2},{mname})", "tok_rep_macro")
                    idx += 1
            for k2 in range(n):
                if spans[k2][2] == "IDENTIFIER" and (k2 in line_has_hash or rng.random() < (0.05 if q else 0.3)):
                    a, e, _ = spans[k2]
                    kw = KW[rng.randrange(len(KW))]
                    nm = names[rng.randrange(2)] if k2 not in line_has_hash else names[k2 % 2]
                    yield idx, self.derived(b, nm, [[a, e, kw]], f"tok_rep_kw({k2},{kw})", "tok_rep_kw")
                    idx += 1
                    if k2 in line_has_hash:
                        yield idx, self.derived(b, names[(k2 + 1) % 2], [[a, e, KW[(rng.randrange(len(KW)))]]], f"tok_rep_kw({k2})", "tok_rep_kw")
                        idx += 1
            # sampled edits
            n_s = max(20, n // 3) if q else n * 2
            for _ in range(n_s):
                kind = ("tok_rep", "tok_ins", "tok_swap", "edit_pair", "flip", "non_ascii", "bad_utf8")[rng.randrange(7)]
                nm = names[rng.randrange(2)]
                k = rng.randrange(n)
                a, e, _ = spans[k]
                lx = LEXEMES[rng.randrange(len(LEXEMES))]
                extra = None
                if kind == "tok_rep":
                    sp = [[a, e, lx]]
                elif kind == "tok_ins":
                    sp = [[a, a, lx]]
                elif kind == "tok_swap":
                    k2 = rng.randrange(n)
                    if k2 == k:
                        continue
                    a2, e2, _ = spans[k2]
                    sp = [[a, e, content[a2:e2]], [a2, e2, content[a:e]]]
                elif kind == "edit_pair":
                    k2 = rng.randrange(n)
                    a2, e2, _ = spans[k2]
                    if not (e <= a2 or e2 <= a):
                        continue
                    lx2 = LEXEMES[rng.randrange(len(LEXEMES))]
                    sp = [[a, e, lx if rng.random() < 0.5 else ""], [a2, a2 if rng.random() < 0.5 else e2, lx2]]
                elif kind == "flip":
                    off = rng.randrange(L)
                    sp = [[off, off + 1, chr(rng.choice([0, 1, 9, 10, 13, 32, 34, 39, 40, 41, 47, 63, 92, 123, 125, 127]))]]
                elif kind == "non_ascii":
                    off = rng.randrange(L + 1)
                    sp = [[off, off, rng.choice(["é", "世界", " ", " ", "﻿", "\U0001F600"])]]
                else:
                    sp = []
                    raw = rng.choice([b"\xe9", b"\xff\xfe", b"\xc3", b"\x80abc", b"\xed\xa0\x80"])
                    extra = {"append_bytes_b64": base64.b64encode(raw).decode(),
                             "bytes_at": len(content[:rng.randrange(L + 1)].encode("utf-8", "surrogateescape"))}
                yield idx, self.derived(b, nm, sp, f"{kind}@{k}", kind, extra)
                idx += 1
        self.n_bases = n_bases
        # every special member undamaged under both file types (the full fault enumeration only covers a seeded subset of them)
        idx = 4_000_000
        for g in sorted(P.groups):
            if not g.startswith("special_"):
                continue
            for b in P.groups[g]:
                f = P.files[b]
                stem, ext = f["name"].rsplit(".", 1)
                for nm in (f["name"], f"{stem}.{'h' if ext == 'c' else 'c'}"):
                    yield idx, self.derived(b, nm, [], "undamaged", "undamaged")
                    idx += 1
        # CLI level: the same kind of damage through the real main()
        base_ids = self.bases()
        n_cli = 700 if q else 12000
        for i in range(n_cli):
            r = core.derive_rng("c05.cli", self.seed, i)
            b = base_ids[r.randrange(len(base_ids))]
            f = P.files[b]
            content = f["content"]
            cut = r.randrange(len(content) + 1)
            opts = [[], ["--no-colors"], ["-f", "json"], ["-d"], ["-dd"], ["-dd", "--no-colors"], ["-o", "-R", "CheckDefine"]][r.randrange(7)]
            sc = {"kind": "clifault", "fault": "cli_level", "desc": f"prefix_chr({cut})",
                  "files": {"x": {"name": f["name"], "base": b, "splices": [[cut, len(content), ""]], "fault_desc": f"prefix_chr({cut})"}},
                  "tree": {f["name"]: "@x"}, "ops": [{"op": "cli", "argv": opts + [f["name"]]}]}
            so = r.random()
            if so < 0.15:
                sc["ops"][0]["stdout"] = "closed"      # file descriptor 1 closed at start: sys.stdout is None
            elif so < 0.3:
                sc["ops"][0]["stdout"] = "strict"
            yield 5_000_000 + i, sc
        # CLI level, unusual shapes of the file system below a directory argument (the directory walk is part of "gets an answer")
        src = P.files[base_ids[0]]["content"]
        deep = {"a.c": src}
        for k in range(60):
            deep = {f"d{k}": deep}
        shapes = [
            ("link_loop_up", {"proj": {"a.c": src, "sub": {"back": "->..", "b.h": src}}}, ["proj"], "."),
            ("link_loop_self", {"proj": {"a.c": src, "self": "->."}}, ["proj"], "."),
            ("link_loop_cwd", {"proj": {"a.c": src, "sub": {"back": "->.."}}}, [], "proj"),
            ("link_loop_pair", {"p": {"x": "->../q", "a.c": src}, "q": {"y": "->../p", "b.c": src}}, ["p", "q"], "."),
            ("dangling_source_link", {"proj": {"gone.c": "->nowhere.c", "a.c": src}}, ["proj"], "."),
            ("dangling_source_link_named", {"proj": {"gone.c": "->nowhere.c", "a.c": src}}, ["proj/a.c", "proj/gone.c"], "."),
            ("dangling_dir_link", {"proj": {"lib": "->../missing", "a.c": src}}, ["proj"], "."),
            ("device_link", {"proj": {"null.c": "->/dev/null", "a.c": src}}, ["proj"], "."),
            ("deep_tree_60", deep, ["d59"], "."),
            ("long_name_250", {"proj": {"n" * 248 + ".c": src}}, ["proj"], "."),
            ("dir_named_like_option", {"proj": {"-x": {"a.c": src}}}, ["proj"], "."),
            ("newline_in_name", {"proj": {"a\nb.c": src, "c\td.h": src}}, ["proj"], "."),
        ]
        for k, (name, tree, argv, cwd) in enumerate(shapes):
            for opts in ([], ["-f", "json"]):
                yield 5_800_000 + 2 * k + (1 if opts else 0), {"kind": "clifault", "fault": "fs_shape", "desc": name, "tree": tree,
                                                               "ops": [{"op": "cli", "argv": opts + argv, "cwd": cwd}]}
        # tokenizer alone
        yield from self.lex_scenarios()
        yield from self.nest_scenarios()

    def lex_scenarios(self):
        q = self.tier == "quick"
        idx = 8_000_000
        # exhaustive: every string of length <= 4 over the reduced alphabet, 80 strings per child
        batch = []

        def flush(kind):
            nonlocal batch, idx
            if batch:
                files = {f"s{j}": {"name": "s.c", "content": s} for j, s in enumerate(batch)}
                sc = {"kind": "lex", "fault": kind, "files": files, "ops": [{"op": "lex", "file": f"s{j}"} for j in range(len(batch))]}
                batch = []
                idx += 1
                return [(idx, sc)]
            return []
        import itertools
        maxlen = 4
        for ln in range(0, maxlen + 1):
            for tup in itertools.product(REDUCED, repeat=ln):
                batch.append("".join(tup))
                if len(batch) >= 120:
                    yield from flush("lex_exhaustive")
        yield from flush("lex_exhaustive")
        # seeded lexeme sequences over the full lexical alphabet
        n = 1500 if q else 40000
        for i in range(n):
            r = core.derive_rng("c05.lexseq", self.seed, i)
            m = r.randrange(1, 25)
            s = "".join(LEXEMES[r.randrange(len(LEXEMES))] + ("" if r.random() < 0.6 else " ") for _ in range(m))
            batch.append(s)
            if len(batch) >= 60:
                yield from flush("lex_seeded")
        yield from flush("lex_seeded")
        # long runs of one unmatched thing
        units = ["(", "[", "{", "@", "\\\n", "0x", "'", "\"", "/*", "//\\\n", "??/\n", "1e", "L", "#", "?", ".", "-", "u8", "0b", "\\"]
        # every character class of the lexical alphabet as a long run of one character (lexer only: cheap)
        singles = list("0179aAzZ_xXeEpPuUlLfF+*/%<>=!&|^~,;:)]}$`") + ["\t", " ", "\n", "\r", "é", "1'", "1.", ".1", "e+", "0.", "''"]
        for ch in singles:
            for ln in ([40, 400, 5000] if q else [30, 64, 400, 2000, 5000, 12000]):
                batch.append(ch * ln)
                batch.append("a = " + ch * ln + ";")
            yield from flush("lex_long_run")
        lengths = [90, 150, 400, 1100, 5000] if not q else [150, 1100, 5000]
        plengths = [90, 150, 400] if not q else [110, 250]
        for u in units:
            for ln in lengths:
                batch.append(u * ln)
                yield from flush("lex_long_run")
            for ln in plengths:
                # and through the whole pipeline
                yield idx, {"kind": "fault", "fault": "pipeline_long_run", "desc": f"{u!r}*{ln}",
                            "files": {"x": {"name": "run.c", "content": u * ln}}, "ops": [{"op": "api", "file": "x"}]}
                idx += 1
                yield idx, {"kind": "fault", "fault": "pipeline_long_run", "desc": f"main+{u!r}*{ln}",
                            "files": {"x": {"name": "run.c", "content": "int\tmain(void)\n{\n\treturn (" + u * ln}},
                            "ops": [{"op": "api", "file": "x"}]}
                idx += 1

    def nest_scenarios(self):
        """Deep nesting: one statement, thousands of levels (Python frames must not be the limit)."""
        idx = 9_000_000
        q = self.tier == "quick"
        for n in ([1100, 3000] if q else [500, 1100, 3000, 6000]):
            for u, v in (("(", ")"), ("[", "]"), ("{", "}")):
                for closed in (True, False):
                    close = v * n if closed else ""
                    forms = [f"\ta = {u * n}1{close};\n", f"\tft_x({u * n}1{close});\n", f"\tif ({u * n}a{close})\n\t\ta++;\n",
                             f"\treturn ({u * n}0{close});\n"]
                    if u == "(":
                        forms.append(None)
                    for k, body in enumerate(forms):
                        if body is None:
                            content = f"#if {u * n}1{close}\n# define A 1\n#endif\n"
                        else:
                            content = "int\tmain(void)\n{\n" + body + "\treturn (0);\n}\n"
                        yield idx, {"kind": "fault", "fault": "pipeline_deep_nest", "desc": f"nest {u!r}*{n} closed={closed} form={k}",
                                    "files": {"x": {"name": "nest.c", "content": content}}, "ops": [{"op": "api", "file": "x"}]}
                        idx += 1

        # deep and long *structures* (one construct per line, thousands of lines): what recursion over scopes, over the statement
        # history or over a chain of clauses would not survive
        idx = 9_500_000
        for n in ([1200] if q else [300, 1200, 4000]):
            def tabs(k):
                return "\t" * min(k, 40)     # the indentation is capped: a file of n*n/2 tabs only measures the lexer's speed
            chains = {
                "while_chain": "".join(f"{tabs(k + 1)}while (1)\n" for k in range(n)) + f"{tabs(n + 1)}a++;\n",
                "if_chain": "".join(f"{tabs(k + 1)}if (a)\n" for k in range(n)) + f"{tabs(n + 1)}a++;\n",
                "for_chain": "".join(f"{tabs(k + 1)}for (;;)\n" for k in range(n)) + f"{tabs(n + 1)}a++;\n",
                "mixed_chain": "".join(f"{tabs(k + 1)}{('while (1)', 'if (a)', 'for (;;)')[k % 3]}\n" for k in range(n)) + f"{tabs(n + 1)};\n",
                "else_if_ladder": "\tif (a == 0)\n\t\ta++;\n" + "".join(f"\telse if (a == {k})\n\t\ta++;\n" for k in range(n)) + "\telse\n\t\ta--;\n",
                "block_chain": "".join(f"{tabs(k + 1)}{{\n" for k in range(n)) + f"{tabs(n + 1)}a++;\n" + "".join(f"{tabs(n - k)}}}\n" for k in range(n)),
                "block_chain_open": "".join(f"{tabs(k + 1)}{{\n" for k in range(n)) + f"{tabs(n + 1)}a++;\n",
                "if_block_chain": "".join(f"{tabs(k + 1)}if (a)\n{tabs(k + 1)}{{\n" for k in range(n)) + f"{tabs(n + 1)}a++;\n"
                                  + "".join(f"{tabs(n - k)}}}\n" for k in range(n)),
                "do_chain": "".join(f"{tabs(k + 1)}do\n" for k in range(n)) + f"{tabs(n + 1)}a++;\n" + "".join(f"{tabs(n - k)}while (a);\n" for k in range(n)),
                "ternary_chain": "\ta = " + "a ? 1 : " * n + "0;\n",
                "comma_chain": "\ta = 0" + ", a++" * n + ";\n",
                "arrow_chain": "\ta" + "->next" * n + " = 0;\n",
                "star_chain": "\t" + "*" * n + "a = 0;\n",
                "not_chain": "\ta = " + "!" * n + "a;\n",
                "cast_chain": "\ta = " + "(int)" * n + "a;\n",
                "call_chain": "\t" + "ft_x(" * n + "a" + ")" * n + ";\n",
                "label_chain": "".join(f"l{k}:\n" for k in range(n)) + "\ta++;\n",
                "semicolons": "\t" + ";" * n + "\n",
                "return_lines": "\treturn (0);\n" * n,
                "decl_lines": "".join(f"\tint\ta{k};\n" for k in range(n)) + "\n\ta0 = 0;\n",
            }
            for name, body in chains.items():
                if name == "comma_chain":
                    body = "\ta = 0" + ", a++" * (n // 4) + ";\n"      # quadratic in the code under test: kept conclusive
                for ext in ("c", "h"):
                    content = "int\tmain(void)\n{\n" + body + "\treturn (0);\n}\n"
                    yield idx, {"kind": "fault", "fault": "pipeline_deep_nest", "desc": f"{name}*{n}.{ext}",
                                "files": {"x": {"name": f"nest.{ext}", "content": content}}, "ops": [{"op": "api", "file": "x"}]}
                    idx += 1
            tops = {
                "ifdef_nest": "".join(f"#{' ' * min(k, 200)}ifdef A{k}\n" for k in range(n)) + "int\tg_a;\n" + "".join(f"#{' ' * min(n - 1 - k, 200)}endif\n" for k in range(n)),
                "ifdef_open": "".join(f"#ifdef A{k}\n" for k in range(n)) + "int\tg_a;\n",
                "endif_only": "#endif\n" * n,
                "else_only": "#ifdef A\n" + "#else\n" * n + "#endif\n",
                "elif_ladder": "#if A == 0\n" + "".join(f"#elif A == {k}\n" for k in range(n)) + "#endif\n",
                "struct_nest": "".join(f"{tabs(k)}struct s_{k}\n{tabs(k)}{{\n" for k in range(n)) + f"{tabs(n)}int\ta;\n" + "".join(f"{tabs(n - 1 - k)}}}\tm{k};\n" for k in range(n)),
                "typedef_lines": "".join(f"typedef int\tt_a{k};\n" for k in range(n)),
                "define_lines": "".join(f"# define A{k} {k}\n" for k in range(n)),
                "include_lines": "".join(f"# include \"a{k}.h\"\n" for k in range(n)),
                "proto_lines": "".join(f"int\tft_a{k}(int a);\n" for k in range(n)),
                "func_lines": "".join(f"int\tft_a{k}(void)\n{{\n\treturn ({k});\n}}\n\n" for k in range(n)),
                "enum_big": "enum e_a\n{\n" + "".join(f"\tA{k},\n" for k in range(n)) + "};\n",
                "init_nest": "int\tg_a[] = " + "{" * n + "0" + "}" * n + ";\n",
                "comment_lines": "// c\n" * n,
                "empty_lines": "\n" * n,
                "ml_comment_big": "/*\n" + "** c\n" * n + "*/\n",
                "param_list": "int\tft_a(" + ", ".join(f"int a{k}" for k in range(n)) + ");\n",
                "fnptr_nest": "int\t" + "(*" * n + "g_f" + ")(void)" * n + ";\n",
                "array_dims": "int\tg_a" + "[2]" * n + ";\n",
                "string_concat": "char\t*g_s = " + "\"a\" " * n + ";\n",
            }
            # runs of one-line comments at the very top of a file (banners, licence blocks): everything up to the first statement
            # is what the 42-header rule looks at, in one regular-expression search
            frame = "/* " + "*" * 74 + " */\n"
            tops["frame_banner"] = frame * min(n, 400) + "int\tg_a;\n"
            tops["by_banner"] = frame + "/*   By: a b */\n" * min(n, 400) + "int\tg_a;\n"
            tops["fields_banner"] = frame + "".join(ln * 10 for ln in ("/* c */\n", "/*   By: a b */\n", "/*   Created: 1 2 by a */\n",
                                                                  "/*   Updated: 1 2 by a */\n", "/* c */\n")) + "int\tg_a;\n"
            from ..workload import header42
            hdr = header42("nest.c").split("\n")
            tops["header_unclosed_banner"] = "\n".join(hdr[:10]) + "\n" + "/* c */\n" * min(n, 400) + "int\tg_a;\n"
            tops["header_twice_banner"] = "\n".join(hdr[:10]) + "\n" + "\n".join(hdr[:10]) + "\n" + frame * 30 + "int\tg_a;\n"
            m = n // 8          # these three are quadratic (or worse) in the code under test: a smaller n keeps the runs conclusive
            tops["ifdef_nest"] = "".join(f"#{' ' * min(k, 200)}ifdef A{k}\n" for k in range(m)) + "int\tg_a;\n" + "".join(f"#{' ' * min(m - 1 - k, 200)}endif\n" for k in range(m))
            m = n // 12         # cubic: far below the CPU-time backstop, whose verdict must not depend on the load of the machine
            tops["struct_nest"] = "".join(f"{tabs(k)}struct s_{k}\n{tabs(k)}{{\n" for k in range(m)) + f"{tabs(m)}int\ta;\n" + "".join(f"{tabs(m - 1 - k)}}}\tm{k};\n" for k in range(m))
            tops["fnptr_nest"] = "int\t" + "(*" * m + "g_f" + ")(void)" * m + ";\n"
            for name, body in tops.items():
                for ext in ("c", "h"):
                    yield idx, {"kind": "fault", "fault": "pipeline_deep_nest", "desc": f"{name}*{n}.{ext}",
                                "files": {"x": {"name": f"nest.{ext}", "content": body}}, "ops": [{"op": "api", "file": "x"}]}
                    idx += 1

    # ---- oracle ------------------------------------------------------------------------------------
    def judge(self, sc, res, refs):
        vs = []
        kind = sc.get("kind")
        for i, o in enumerate(res["ops"]):
            if kind == "clifault":
                end = o.get("end")
                if end == "internal":
                    vs.append(Violation(self.prop, "C05.no-internal-error",
                                        f"{o.get('exc')} @ {core.site_key(o.get('site'))}", {"level": "cli", "argv": sc["ops"][i]["argv"], "msg": o.get("excmsg")}))
                elif end == "hang":
                    vs.append(Violation(self.prop, "C05.liveness", core.site_key(o.get("site"), with_line=False), {"level": "cli"}))
                elif end == "returned":
                    vs.append(Violation(self.prop, "C05.cli-ends-with-status", "main() returned without sys.exit", {}))
                else:
                    ex = o.get("exit")
                    if not isinstance(o.get("exit_raw", 0), (int, type(None))):
                        vs.append(Violation(self.prop, "C05.cli-ends-with-status", "sys.exit called with a non-integer", {"exit": str(o.get("exit_raw"))[:100]}))
                    elif not o.get("reports") and ex == 0:
                        vs.append(Violation(self.prop, "C05.cli-ends-with-status", "no report printed but exit status 0", {"stdout": o.get("stdout", "")[:200]}))
                continue
            oc = o.get("outcome")
            if oc == "internal":
                vs.append(Violation(self.prop, "C05.tokenizer-total" if o["op"] == "lex" else "C05.no-internal-error",
                                    f"{o.get('exc')} @ {core.site_key(o.get('site'))}",
                                    {"msg": o.get("excmsg"), "fault": sc.get("desc"), "op_index": i}))
            elif oc == "hang":
                vs.append(Violation(self.prop, "C05.liveness", core.site_key(o.get("site"), with_line=False),
                                    {"hang_kind": o.get("hang_kind"), "fault": sc.get("desc"), "op_index": i}))
            elif o.get("diags") is None:
                vs.append(Violation(self.prop, "C05.no-internal-error",
                                    f"{o.get('diags_exc')} @ report-iteration {core.site_key(o.get('diags_site'))}", {"fault": sc.get("desc")}))
        return vs

    def observe(self, idx, sc, r):
        kind = sc.get("fault")
        self.fire(kind, len(r["ops"]) if sc.get("kind") == "lex" else 1)
        if sc.get("kind") == "fault":
            o = r["ops"][0]
            self.count("outcomes", o.get("outcome"))
            f = sc["files"]["x"]
            pops = o.get("pops") or []
            if pops and (f.get("splices") or f.get("append_bytes_b64") or "base" not in f):
                last = pops[-1]
                nm = f["name"]
                self.distinct.add((nm[-1], kind, last[7], last[3], last[4]))
            self.sim_ticks += (o.get("ticks") or 0) + (o.get("lex_ticks") or 0)
        elif sc.get("kind") == "clifault":
            self.count("cli_ends", r["ops"][0].get("end"))
        elif sc.get("kind") == "lex":
            for o in r["ops"]:
                self.count("lex_outcomes", o.get("outcome"))
                self.sim_ticks += o.get("lex_ticks") or 0
        if len(self.samples) < 5 and idx % 4999 == 17 and sc.get("kind") != "lex":
            f = file_of(sc, "x")
            self.samples.append({"run": idx, "fault": sc.get("desc"), "kind": kind, "file": f["name"], "origin": f.get("origin"),
                                 "delivered_tail": f.get("content", "")[-60:], "outcome": r["ops"][0].get("outcome") or r["ops"][0].get("end")})

    def run(self):
        self.sim_ticks = 0
        self.run_bulk(self.scenarios(), chunk=16)
        self.confirm_hangs()
        self.recheck_killed()
        self.fidelity()
        self.stats["base_programs"] = getattr(self, "n_bases", None)
        self.stats["sim_ticks"] = self.sim_ticks

    def coverage(self):
        return {"sim_ticks": self.sim_ticks, "fidelity_subprocess_runs": getattr(self, "fidelity_runs", 0)}

    def fidelity(self):
        from ..fidelity import fidelity_sample
        P = self.pools
        r = core.derive_rng("c05.fid", self.seed, 0)
        ids = self.bases()
        scs = []
        for _ in range(6):
            b = ids[r.randrange(len(ids))]
            f = P.files[b]
            cut = r.randrange(len(f["content"]) + 1)
            scs.append({"files": {"x": {"name": f["name"], "content": f["content"][:cut]}}, "tree": {f["name"]: "@x"},
                        "ops": [{"op": "cli", "argv": ["--no-colors", f["name"]]}]})
        bad = fidelity_sample(self, scs)
        self.fidelity_runs = len(scs)
        if bad:
            raise RuntimeError(f"fidelity sample disagrees with the real subprocess: {bad[:1]}")

    def shrinkers(self, sc, target):
        yield from generic_shrinkers(sc)
        if sc.get("kind") == "lex" and len(sc["ops"]) > 1:
            for i in range(len(sc["ops"])):
                c = copy.deepcopy(sc)
                c["ops"] = [c["ops"][i]]
                yield c
