"""C06 - the verdict is a pure function of the file: history-sim (DESIGN 4.6)."""
import json
import os
import subprocess
import sys

from .. import core
from ..framework import Engine, Violation, api_sig, short_sig, classify, generic_shrinkers, VERIF
from ..pools import Pools
from .common import ref_api, ref_cli, file_of, tree_files, norm_rel, cli_sig, strip_ansi, report_blocks

OPTSETS_API = [(0, None), (0, None), (0, None), (1, None), (0, ["CheckDefine"]), (2, None), (0, ["Whatever"])]
OPTSETS_CLI = [(), (), ("--no-colors",), ("-f", "json"), ("-d",), ("-R", "CheckDefine"), ("-o",)]


def state_delta(a, b):
    if not a or not b:
        return []
    return sorted(f"{k}:{a[k]}->{b[k]}" if k == "reclimit" else k for k in a if a.get(k) != b.get(k))


class C06(Engine):
    prop = "C06"
    name = "history-sim"
    level = "exploration"
    expected_kinds = {"history", "listing_perm", "hashseed", "path_spelling", "mixed_levels", "io_error_in_history", "abort_point", "interpreter_optimize", "volume_history", "ambient_env", "fd_limit"}
    rule_text = ("A run is an explicit history of analyses in one process forked from a pristine zygote: all ordered pairs over a "
                 "~50-file stress pool (every distinct fatal raise site / internal-error site reachable from the pools, state-stressing "
                 "files, one of each ordinary class), seeded histories of length 3..8 with varying options, read faults in predecessors "
                 "and API/CLI levels mixed, CLI-level repeated main() invocations, path spellings, rules-directory listing permutations "
                 "(plus the whole pool under any permutation that changes the derived order of the primaries) and other PYTHONHASHSEEDs. "
                 "Oracle: outcome and diagnostics of every op equal the same file analysed alone. Non-trivial = the history has >= 1 "
                 "predecessor (or a non-canonical listing / hash seed / spelling); distinct = distinct (classes of the predecessors -> "
                 "successor file) pairs, listing permutations, spellings.")
    assumptions = ["'alone' = one analysis in a child forked from the freshly booted zygote (canonical listing, PYTHONHASHSEED=0)",
                   "sequential histories only (the statement says 'after', 'in any order'); no synthetic aborts at arbitrary instructions",
                   "the inconclusive class 'slow' (CPU-time cap) is never compared"]

    def setup(self):
        q = self.tier == "quick"
        self.pools = Pools(self.seed, n_gen=30 if q else 120, n_viol=30 if q else 120, n_cut=60 if q else 300,
                           corpus_limit=None, tag="c06", enc_family=True)
        self.pools.register()

    def prepare(self):
        P = self.pools
        P.measure(self.pool)
        self.pristine = None
        # stress pool: every fatal / stress / internal-ish member first, then a spread of the others
        rng = core.derive_rng("c06.stress", self.seed, 0)
        want = 70 if self.tier == "quick" else 110
        sp = []
        for g in ("special_fatal", "special_stress", "special_zoo"):
            sp += P.groups.get(g, [])
        seen_sites = set()
        for fid in sorted(P.files):
            o = P.alone[fid]
            if P.cls[fid] in ("internal", "hang", "fatal") and fid not in sp:
                k = (P.cls[fid], core.site_key(o.get("site")))
                if k not in seen_sites:
                    seen_sites.add(k)
                    sp.append(fid)
        sp = sp[:want - 14]
        for g, n in (("special_clean", 3), ("special_notice", 2), ("special_erroneous", 3), ("special_literal", 3),
                     ("gen", 2), ("viol", 1)):
            cand = [f for f in P.groups.get(g, []) if f not in sp]
            rng.shuffle(cand)
            sp += cand[:n]
        self.stress = sp[:want]
        # files with diagnostics made by the lexer itself (free-text BAD_LEXEME among them): two of those in one report are what a
        # per-report cache in a formatter would mix up
        self.lexdiag = [f for f in sorted(P.files) if any(rule is None for _, rule in (P.alone[f].get("who") or []))]
        # ... and, among them, files carrying a diagnostic whose text is not the catalogue text of its code (measured)
        cat = dict(core.N.norm_error.errors)
        self.freetext = [f for f in sorted(P.files) if any(cat.get(d[1]) != d[2] for d in (P.alone[f].get("diags") or []))]
        self.by_name = {}
        self.by_stem = {}
        for fid in sorted(P.files):
            nm = P.files[fid]["name"]
            self.by_name.setdefault(nm, []).append(fid)
            self.by_stem.setdefault(nm.rsplit(".", 1)[0], []).append(fid)
        self.count("pool_classes", "total", 0)
        for fid in P.files:
            self.count("pool_classes", P.cls[fid])

    # ---- scenario generation ----------------------------------------------------------------
    def scenarios(self):
        P = self.pools
        idx = 0
        for a in self.stress:
            for b in self.stress:
                yield idx, {"kind": "pair", "probe_state": True,
                            "ops": [{"op": "api", "file": a}, {"op": "api", "file": b}]}
                idx += 1
        self.n_pairs = idx

    def scenarios_phase2(self, tainters):
        """Histories of length 2..8 (seeded), biased: after a predecessor that changed the state vector,
        successors come from the whole pool; plus uniform histories, CLI histories, spellings, listings."""
        P = self.pools
        q = self.tier == "quick"
        all_ids = sorted(P.files)
        stressy = [f for f in all_ids if P.meta[f]["group"] in ("special_stress", "special_literal", "cut")] or all_ids
        idx = 1_000_000
        # (a) every tainter followed by every pool member (one predecessor is enough for these)
        for t in tainters[: (4 if q else 12)]:
            for s in all_ids:
                yield idx, {"kind": "pair", "probe_state": True, "ops": [{"op": "api", "file": t}, {"op": "api", "file": s}]}
                idx += 1
        # (a2) volume: a long-lived process. Hundreds of thousands of statements go through the registry before the victims
        #      (a budget, a counter or a cache that belongs to the process instead of the file shows only here)
        from ..workload import header42
        victims = [f for f in all_ids if P.meta[f]["group"] in ("special_clean", "special_notice", "special_erroneous")][:6]
        for k, (lines, reps) in enumerate([(3000, 45)] if q else [(3000, 4), (3000, 20), (3000, 45), (3000, 110), (20000, 6)]):
            filler = {"name": "filler.c", "content": header42("filler.c") + "\n" + "// filler\n" * lines, "origin": f"filler:{lines}"}
            ops = [{"op": "api", "file": "fill", "no_compare": True} for _ in range(reps)] + [{"op": "api", "file": v} for v in victims]
            yield idx + 500_000 + k, {"kind": "hist", "volume": lines * reps, "tick_mult": 5, "files": {"fill": filler}, "ops": ops}
        # (b) seeded histories of length 3..8 with varying options
        n_hist = 1200 if q else 30000
        for i in range(n_hist):
            r = core.derive_rng("c06.hist", self.seed, i)
            m = r.randrange(3, 9)
            ops = []
            for _ in range(m):
                src = tainters if (tainters and r.random() < 0.15) else (self.stress if r.random() < 0.4 else all_ids)
                fid = src[r.randrange(len(src))]
                d, R = OPTSETS_API[r.randrange(len(OPTSETS_API))]
                ops.append({"op": "api", "file": fid, "debug": d, "R": R})
            if r.random() < 0.2:     # the same file twice
                ops.append(dict(ops[r.randrange(len(ops))]))
            if r.random() < 0.3:     # a *different* file of the same name (or the same stem) later in the history: name-keyed state
                k = r.randrange(len(ops))
                nm = P.files[ops[k]["file"]]["name"]
                stem = nm.rsplit(".", 1)[0]
                same = self.by_name.get(nm, []) if r.random() < 0.6 else self.by_stem.get(stem, [])
                same = [f for f in same if f != ops[k]["file"]]
                if same:
                    ops.insert(r.randrange(k + 1, len(ops) + 1), {"op": "api", "file": same[r.randrange(len(same))], "debug": 0, "R": None})
            if r.random() < 0.15:    # a predecessor whose read fails in the middle of the history (I/O fault at the read seam)
                k = r.randrange(len(ops) - 1)
                ops[k] = dict(ops[k])
                ops[k]["faults"] = [{"seam": "open", "call": 0, "kind": r.choice(["eio", "eacces", "enoent"])}]
            sc = {"kind": "hist", "probe_state": True, "ops": ops}
            if r.random() < 0.25:    # mixed levels: main() invocations interleaved with API-level analyses, one process
                tree = {}
                for j in range(r.randrange(1, 3)):
                    fid = all_ids[r.randrange(len(all_ids))]
                    nm = P.files[fid]["name"]
                    tree[f"m{j}"] = {nm: "@" + fid}
                    opts = OPTSETS_CLI[r.randrange(len(OPTSETS_CLI))]
                    ops.insert(r.randrange(len(ops) + 1), {"op": "cli", "argv": list(opts) + [f"m{j}/{nm}"], "opts": list(opts)})
                sc["tree"] = tree
                sc["kind"] = "mixed"
            yield 2_000_000 + i, sc
        # (c) CLI-level histories: main() invoked repeatedly in one process, 1..3 files per invocation
        n_cli = 400 if q else 8000
        for i in range(n_cli):
            r = core.derive_rng("c06.cli", self.seed, i)
            k = r.randrange(2, 7)
            chosen = []
            lexbias = self.lexdiag and r.random() < 0.3
            for _ in range(k):
                src = tainters if (tainters and r.random() < 0.2) else (self.stress if r.random() < 0.5 else all_ids)
                if lexbias and r.random() < 0.7:
                    src = self.freetext if (self.freetext and r.random() < 0.5) else self.lexdiag
                chosen.append(src[r.randrange(len(src))])
            tall = [f for f in all_ids if P.files[f]["name"].startswith("tall")]
            if tall and r.random() < 0.12:
                chosen.insert(r.randrange(len(chosen) + 1), tall[0])
            tree = {}
            names = []
            for j, fid in enumerate(chosen):
                nm = P.files[fid]["name"]
                d = f"d{j}"
                tree[d] = {nm: "@" + fid}
                names.append(f"{d}/{nm}")
            ops = []
            for _ in range(r.randrange(2, 5)):
                sel = [names[r.randrange(len(names))] for _ in range(r.randrange(1, 4))]
                opts = OPTSETS_CLI[r.randrange(len(OPTSETS_CLI))]
                ops.append({"op": "cli", "argv": list(opts) + sel, "opts": list(opts)})
            yield 3_000_000 + i, {"kind": "clihist", "probe_state": True, "tree": tree, "ops": ops}
        # (c2) the ambient environment of the process (S10): time zone, terminal geometry, colour conventions, locale names, and a
        #      descriptor limit a few above what is open - none of them is "the file's base name, content or the options"
        TZS = ["CET-1CEST,M3.5.0,M10.5.0/3", "EST5EDT,M3.2.0,M11.1.0", "JST-9", "UTC0", "NZST-12NZDT,M9.5.0,M4.1.0/3", "<+0545>-5:45"]
        AMBIENT = [("COLUMNS", ["20", "40", "80", "0", "x"]), ("LINES", ["24", "1"]), ("NO_COLOR", ["1", ""]), ("FORCE_COLOR", ["1"]),
                   ("TERM", ["dumb", "xterm-256color", ""]), ("LANG", ["C", "tr_TR.UTF-8", "fr_FR.ISO-8859-1"]), ("LC_ALL", ["C", "POSIX"]),
                   ("CLICOLOR_FORCE", ["1"]), ("HOME", ["/nonexistent"]), ("USER", ["marvin", ""]), ("MAIL", ["x@y.z"])]
        dated = [f for f in all_ids if P.files[f]["name"].startswith("hdr_date")]
        n_env = 160 if q else 4000
        for i in range(n_env):
            r = core.derive_rng("c06.env", self.seed, i)
            k = r.choice([1, 2, 3, 4, 9, 12])
            chosen = [(dated[r.randrange(len(dated))] if (dated and r.random() < 0.4) else all_ids[r.randrange(len(all_ids))]) for _ in range(k)]
            tree, names = {}, []
            for j, fid in enumerate(chosen):
                tree[f"d{j}"] = {P.files[fid]["name"]: "@" + fid}
                names.append(f"d{j}/{P.files[fid]['name']}")
            env = {}
            if r.random() < 0.6:
                env["TZ"] = TZS[r.randrange(len(TZS))]
            for name, vals in AMBIENT:
                if r.random() < 0.2:
                    env[name] = vals[r.randrange(len(vals))]
            opts = OPTSETS_CLI[r.randrange(len(OPTSETS_CLI))]
            op = {"op": "cli", "argv": list(opts) + (names if r.random() < 0.7 else ["."]), "opts": list(opts), "env": env}
            if k >= 9:
                op["fd_headroom"] = 6
            yield 3_500_000 + i, {"kind": "clihist", "ambient": sorted(env) + (["fd_limit"] if k >= 9 else []), "tree": tree, "ops": [op]}
        # (d) path spelling / cwd
        n_sp = 120 if q else 2500
        for i in range(n_sp):
            r = core.derive_rng("c06.spell", self.seed, i)
            fid = all_ids[r.randrange(len(all_ids))]
            nm = P.files[fid]["name"]
            tree = {"src": {nm: "@" + fid, "inner": {}}, "other": {}}
            variants = [(f"src/{nm}", "."), (f"./src/{nm}", "."), (f"src/inner/../{nm}", "."), (f"<root>/src/{nm}", "other"),
                        (nm, "src"), (f"../src/{nm}", "other"), ("src", "."), (".", "src"), (f"src//{nm}", ".")]
            v, cwd = variants[r.randrange(len(variants))]
            opts = OPTSETS_CLI[r.randrange(len(OPTSETS_CLI))]
            sc = {"kind": "spelling", "tree": tree,
                  "ops": [{"op": "cli", "argv": list(opts) + [v], "cwd": cwd, "opts": list(opts)}]}
            if i % 4 == 3:
                # the same content under the same base name, reached through a symbolic link whose target is named otherwise
                ext = nm[nm.rfind("."):]
                sc["tree"] = {"store": {"zz_other_name" + ext: "@" + fid}, "src": {nm: "->../store/zz_other_name" + ext, "inner": {}}, "other": {}}
                sc["named"] = {f"src/{nm}": fid}      # what the oracle compares: this path is a file of that name and content
                if v in ("src", "."):
                    sc["ops"][0]["argv"][-1] = f"src/{nm}" if cwd == "." else nm
            elif i % 8 == 1:
                # two names for one inode (hard link) in a directory that is named as a whole: both names are requested sources
                ext = nm[nm.rfind("."):]
                sc["files"] = {"o": {"name": "zz_second_name" + ext, "base": fid, "splices": []}}
                sc["tree"] = {"project": {nm: "@" + fid, "zz_second_name" + ext: "=>project/" + nm}}
                sc["ops"][0]["argv"][-1] = "project"
                sc["ops"][0]["cwd"] = "."
                sc["named"] = {f"project/{nm}": fid, f"project/zz_second_name{ext}": "o"}
            elif i % 8 == 6:
                # a directory reached through a symbolic link below the directory that was named: its sources are requested too
                sc["tree"] = {"project": {"libft": "->../vendor/libft", "inner": {}}, "vendor": {"libft": {nm: "@" + fid}}}
                sc["ops"][0]["argv"][-1] = "project"
                sc["ops"][0]["cwd"] = "."
                sc["named"] = {f"project/libft/{nm}": fid}
            elif i % 8 == 5:
                # `..` right after a symbolic link to a directory: the operating system reaches vendor/<name>, a lexical
                # normalisation of the path would reach proj/<name> (another file of the same name)
                ext = nm[nm.rfind("."):]
                others = [f for f in all_ids if f != fid and P.files[f]["name"].endswith(ext)]
                oth = others[r.randrange(len(others))]
                sc["files"] = {"o": {"name": nm, "base": oth, "splices": []}}
                sc["tree"] = {"vendor": {"lib": {}, nm: "@o"}, "proj": {"ext": "->../vendor/lib", nm: "@" + fid}}
                sc["ops"][0]["argv"][-1] = f"proj/ext/../{nm}"
                sc["ops"][0]["cwd"] = "."
                sc["named"] = {f"proj/{nm}": "o"}       # keyed by the normalised spelling the report is matched with
            yield 4_000_000 + i, sc
        # (e) rule-directory listing permutations (S1)
        n_perm = 8 if q else 64
        panel_n = 40
        rp = core.derive_rng("c06.panel", self.seed, 0)
        panel = sorted(rp.sample(all_ids, min(panel_n, len(all_ids))))
        specs = ["rev", "checks_first", "primaries_first"] + [1000 + self.seed * 1000 + k for k in range(n_perm)]
        specs = specs[:n_perm] if q else specs
        self.listing_specs = specs
        # canonical listing once, through the same code path (baseline of the derived rule order)
        yield 4_999_000, {"kind": "listing", "boot": {"listing": None, "reboot": True}, "report_boot": True,
                          "ops": [{"op": "api", "file": panel[0], "fresh_registry": True}]}
        for k, spec in enumerate(specs):
            for part in range(0, len(panel), 10):
                yield 5_000_000 + k * 100 + part, {"kind": "listing", "boot": {"listing": spec, "hide_pycache": k % 2 == 1},
                                                   "report_boot": True,
                                                   "ops": [{"op": "api", "file": f, "fresh_registry": j == 0}
                                                           for j, f in enumerate(panel[part:part + 10])]}

    def scenarios_abort_points(self):
        """Abort-point enumeration: a predecessor cut at EVERY token boundary (so that it aborts, or ends, in every state
        its analysis passes through), followed by fixed small victims. The predecessor itself is not compared."""
        P = self.pools
        q = self.tier == "quick"
        from .. import faults
        rng = core.derive_rng("c06.abort", self.seed, 0)
        cands = [f for f in sorted(P.files) if P.meta[f]["group"] in ("corpus", "viol", "gen", "special_erroneous", "special_zoo")
                 and len(P.files[f]["content"]) < 4000]
        # predecessors that carry diagnostics of many kinds leave the most varied residue; plus a random few
        # greedy cover: predecessors chosen so that every diagnostic code seen in the pool occurs in one of them (smallest files first)
        codes_of = {f: set(d[1] for d in (P.alone[f].get("diags") or [])) for f in cands}
        todo = set().union(*codes_of.values()) if codes_of else set()
        rich = []
        for f in sorted(cands, key=lambda f: len(P.files[f]["content"])):
            if codes_of[f] & todo:
                rich.append(f)
                todo -= codes_of[f]
            if len(rich) >= (14 if q else 60):
                break
        rnd = rng.sample(cands, min(len(cands), 4)) if q else list(cands)      # thorough: every pool program below 4 000 characters
        victims = [f for f in sorted(P.files) if P.meta[f]["group"] in ("special_clean",)][:3]
        idx = 7_000_000
        for b in sorted(set(rich + rnd)):
            f = P.files[b]
            content = f["content"]
            spans = faults.token_offsets(core.N, f["name"], content)
            for k in range(1, len(spans)):
                cut = spans[k][0]
                yield idx, {"kind": "hist", "probe_state": True,
                            "files": {"p": {"name": f["name"], "base": b, "splices": [[cut, len(content), ""]], "fault_desc": f"prefix_tok({k})"}},
                            "ops": [{"op": "api", "file": "p", "no_compare": True}] + [{"op": "api", "file": v} for v in victims]}
                idx += 1

    def scenarios_listing_bias(self):
        """Search bias (not an oracle): a listing permutation under which the derived order of the primary rules differs
        from the canonical one is a rare condition that can only exist when two primaries tie on priority. For such
        permutations the whole pool - not just the panel - is analysed, since only statements both tied rules match
        can show a difference."""
        canon = self.order_by_spec.get("null")
        differing = [spec for spec, sha_ in sorted(self.order_by_spec.items()) if canon is not None and sha_ != canon]
        self.stats["listing_perms_changing_primary_order"] = len(differing)
        P = self.pools
        ids = sorted(P.files)
        idx = 5_500_000
        for spec_s in differing[:3]:
            spec = json.loads(spec_s)
            for part in range(0, len(ids), 12):
                yield idx, {"kind": "listing", "boot": {"listing": spec}, "report_boot": True,
                            "ops": [{"op": "api", "file": f, "fresh_registry": j == 0} for j, f in enumerate(ids[part:part + 12])]}
                idx += 1

    # ---- references ------------------------------------------------------------------------------
    def refs_needed(self, sc):
        out = []
        tf = tree_files(sc["tree"]) if sc.get("tree") else []
        if sc.get("named"):
            tf = sorted(named_of(sc).items())
        for op in sc["ops"]:
            if op["op"] == "api" and not op.get("no_compare"):
                out.append(ref_api(sc, op["file"], op.get("debug", 0), op.get("R")))
            elif op["op"] == "cli":
                for p, fid in tf:
                    out.append(ref_cli(sc, fid, tuple(op.get("opts") or ())))
        return out

    # ---- oracle -----------------------------------------------------------------------------------
    def judge(self, sc, res, refs):
        kind = sc.get("kind")
        vs = []
        ops = res["ops"]
        pristine = ops[0].get("state_before") if ops else None
        tf = dict(tree_files(sc["tree"])) if sc.get("tree") else {}
        if sc.get("named"):
            tf = named_of(sc)
        for i, (op, o) in enumerate(zip(sc["ops"], ops)):
            delta = state_delta(pristine, o.get("state_before"))
            if op["op"] == "api":
                if op.get("faults") or op.get("no_compare"):
                    continue      # a predecessor only (its own read was made to fail / it is a cut file): nothing to compare
                key, _ = ref_api(sc, op["file"], op.get("debug", 0), op.get("R"))
                ref = refs[key]
                if ref.get("killed"):
                    continue
                if op.get("faults") or op.get("no_compare"):
                    continue      # a predecessor only (its own read was made to fail / it is a cut file): nothing to compare
                want = api_sig(ref["ops"][0])
                got = api_sig(o)
                if want[0] == "slow" or got[0] == "slow":
                    continue          # inconclusive class: depends on the CPU-time cap, not on the code under test
                if want != got:
                    if kind == "listing":
                        site = f"listing-perm: {got[0]} vs alone {want[0]}"
                        clause = "C06.listing-order"
                    elif kind == "hashseed":
                        site = f"hashseed: {got[0]} vs alone {want[0]}"
                        clause = "C06.hash-seed"
                    else:
                        site = f"api state[{','.join(delta) or 'unchanged'}] -> {got[0]}" + \
                               (f" {got[1]}" if got[0] == "internal" else "") + f" vs alone {want[0]}"
                        clause = "C06.same-as-alone"
                    f = file_of(sc, op["file"])
                    vs.append(Violation(self.prop, clause, site,
                                        {"op_index": i, "file": f["name"], "origin": f.get("origin"),
                                         "observed": short_sig(got), "alone": short_sig(want),
                                         "history": [file_of(sc, x["file"])["name"] if "file" in x else " ".join(x.get("argv", []))
                                                     for x in sc["ops"][:i]]}))
            elif op["op"] == "cli":
                opts = tuple(op.get("opts") or ())
                cwd = op.get("cwd", ".")

                def refsig(fid, opts=opts):
                    key, _ = ref_cli(sc, fid, opts)
                    r = refs[key]
                    if r.get("killed"):
                        return None
                    return cli_sig(r["ops"][0])
                found = self.judge_cli_op(sc, op, o, tf, refsig, cwd, delta, i, kind)
                if not found and o.get("end") == "exit" and "-d" not in opts and "-dd" not in opts:
                    # the same, as printed: each file's block of the report must read exactly as when the file is checked alone
                    # (the structured comparison above looks at Error objects; a formatter can still render them differently)
                    want_blocks = {}
                    for pth, fid in tf.items():
                        key, _ = ref_cli(sc, fid, opts)
                        r = refs[key]
                        if r.get("killed"):
                            continue
                        rb = report_blocks(r["ops"][0])
                        if len(rb) == 1:
                            want_blocks.setdefault(rb[0][0], set()).add(rb[0][1])
                    for name, block in report_blocks(o):
                        if name in want_blocks and block not in want_blocks[name]:
                            found.append(Violation(self.prop, "C06.path-spelling" if kind == "spelling" else "C06.same-as-alone",
                                                   f"cli state[{','.join(delta) or 'unchanged'}] the printed block of a file differs from the block it gets alone",
                                                   {"op_index": i, "argv": op["argv"], "file": name, "printed": block[:200]}))
                            break
                vs += found
        return vs

    def judge_cli_op(self, sc, op, o, tf, refsig, cwd, delta, i, kind):
        vs = []
        clause = "C06.path-spelling" if kind == "spelling" else "C06.same-as-alone"

        def mk(site, detail):
            return Violation(self.prop, clause, f"cli state[{','.join(delta) or 'unchanged'}] {site}", detail)
        end = o.get("end")
        if end in ("invalid-scenario", "slow"):
            return vs
        all_sigs = {p: refsig(fid) for p, fid in tf.items()}
        if end in ("internal", "hang"):
            got = cli_sig(o)
            if not any(s is not None and s[0] == got[0] and s[1:] == got[1:] for s in all_sigs.values()):
                # empty selections etc. are C04/C15 matters: only flag when some file was selected
                if end == "internal" and not o.get("opens"):
                    return vs
                vs.append(mk(f"-> {got[0]} {got[1] if len(got) > 1 else ''} not explained by any file alone",
                             {"op_index": i, "argv": op["argv"], "observed": short_sig(got)}))
            return vs
        matched = set()
        for rep in o.get("reports") or []:
            for f in rep["files"]:
                p = norm_rel(f["path"], cwd)
                fid = tf.get(p)
                if fid is None:
                    continue
                matched.add(p)
                want = all_sigs[p]
                if want is None or want[0] == "slow":
                    continue
                got = ("verdict", tuple((x[0], x[1], x[2], tuple(tuple(h) for h in x[3])) for x in f["diags"])) \
                    if f["diags"] is not None else ("internal", f["status"], "formatter")
                if got != want:
                    vs.append(mk(f"-> {got[0]} vs alone {want[0]}",
                                 {"op_index": i, "argv": op["argv"], "file": p, "observed": short_sig(got),
                                  "alone": short_sig(want)}))
        # every fatal line printed in this invocation: same message as alone
        out = strip_ansi(o.get("stdout", ""))
        pos = 0
        while True:
            k = out.find(": Error!\n\t", pos)
            if k < 0:
                break
            path = out[out.rfind("\n", 0, k) + 1:k]
            e = out.find("\n", k + len(": Error!\n\t"))
            msg = out[k + len(": Error!\n\t"): e if e >= 0 else len(out)]
            pos = k + 1
            p = norm_rel(path, cwd)
            want = all_sigs.get(p) if p is not None else None
            if p in all_sigs:
                matched.add(p)
            if want is None or want[0] == "slow":
                continue
            got = ("fatal", msg.rstrip("\n"))
            want_cmp = want if want[0] != "fatal" else ("fatal", want[1].split("\n")[0])
            if got != want_cmp:
                vs.append(mk(f"-> fatal vs alone {want[0]}",
                             {"op_index": i, "argv": op["argv"], "file": p, "observed": short_sig(got), "alone": short_sig(want)}))
        if sc.get("ambient") is not None and end in ("exit", "returned"):
            # every file of these one-invocation runs is requested: each must be answered (verdict or fatal line) whatever the
            # ambient environment is
            for p in sorted(set(tf) - matched):
                vs.append(mk("a requested file got no answer under this ambient environment",
                             {"op_index": i, "argv": op["argv"], "file": p, "ambient": sc.get("ambient"),
                              "stdout_head": strip_ansi(o.get("stdout", ""))[:160]}))
                break
        if sc.get("named") and end in ("exit", "returned"):
            # the file was requested under this path: its verdict must be reported under this path (and base name)
            for p in sorted(set(named_of(sc)) - matched):
                vs.append(mk("the requested file is not in the report under the path it was requested by",
                             {"op_index": i, "argv": op["argv"], "file": p,
                              "reported": [f["path"] for rep in o.get("reports") or [] for f in rep["files"]][:4]}))
        return vs

    # ---- coverage bookkeeping ------------------------------------------------------------------------
    def observe(self, idx, sc, r):
        kind = sc.get("kind")
        self.count("kinds", kind)
        ops = r["ops"]
        if kind in ("pair", "hist", "mixed"):
            P = self.pools
            if sc["ops"] and sc["ops"][0].get("no_compare"):
                self.fire("abort_point")
            classes = []
            for op in sc["ops"]:
                fid = op.get("file")
                classes.append((P.cls.get(fid, "?") if fid in P.files else "?") if fid else "cli")
                if op.get("faults"):
                    self.fire("io_error_in_history")
                    classes[-1] = "ioerr"
            self.distinct.add(("api", tuple(classes[:-1]), sc["ops"][-1].get("file") or tuple(sc["ops"][-1].get("argv", []))))
            if kind == "mixed":
                self.fire("mixed_levels")
            if sc.get("volume"):
                self.fire("volume_history")
                self.stats["largest_volume_before_a_victim_statements"] = max(self.stats.get("largest_volume_before_a_victim_statements", 0), sc["volume"])
            self.fire("history", len(ops) - 1)
            pristine = ops[0].get("state_before")
            for i, o in enumerate(ops[1:], 1):
                d = state_delta(pristine, o.get("state_before"))
                if d:
                    self.count("state_vectors_seen", ",".join(d))
                    if sc["ops"][i - 1].get("file") in self.pools.files:
                        self.tainted_after.setdefault(sc["ops"][i - 1]["file"], set()).add(tuple(d))
            d = state_delta(pristine, r.get("final_state"))
            if d and len(ops) >= 1 and sc["ops"][-1].get("file") in self.pools.files:
                self.tainted_after.setdefault(sc["ops"][-1]["file"], set()).add(tuple(d))
            for op, o in zip(sc["ops"], ops):
                if o.get("outcome") == "fatal" and o.get("site"):
                    self.fatal_sites.add(core.site_key(o["site"]))
                if o.get("outcome") == "internal":
                    self.internal_sites.add(core.site_key(o.get("site")))
        elif kind == "listing":
            self.fire("listing_perm")
            b = r.get("boot") or {}
            self.order_by_spec[json.dumps(sc["boot"].get("listing"))] = core.sha(repr(b.get("primaries")))
            self.rule_orders.add(core.sha(repr(b.get("primaries"))))
            self.check_orders.add(core.sha(repr(b.get("checks"))))
            self.distinct.add(("listing", str(sc["boot"]["listing"]), sc["boot"].get("hide_pycache")))
        elif kind == "clihist":
            if sc.get("ambient") is not None:
                self.fire("ambient_env")
                for a in sc["ambient"]:
                    self.count("ambient", a)
                if "fd_limit" in sc["ambient"]:
                    self.fire("fd_limit")
            self.fire("history", len(ops) - 1)
            self.distinct.add(("cli", tuple(tuple(op["argv"]) for op in sc["ops"])))
        elif kind == "spelling":
            self.fire("path_spelling")
            self.distinct.add(("spell", sc["ops"][0]["argv"][-1].replace(self_name(sc), "F"), sc["ops"][0].get("cwd")))
        if len(self.samples) < 4 and idx % 997 == 3:
            self.samples.append({"run": idx, "kind": kind,
                                 "ops": [{k: v for k, v in op.items() if k in ("op", "file", "argv", "debug", "R", "cwd")}
                                         for op in sc["ops"]][:8],
                                 "files": {op["file"]: file_of(sc, op["file"]).get("origin") for op in sc["ops"] if "file" in op},
                                 "boot": sc.get("boot")})

    # ---- hash seed shards (S7) -------------------------------------------------------------------------
    def hashseed_phase(self):
        P = self.pools
        q = self.tier == "quick"
        rp = core.derive_rng("c06.hs", self.seed, 0)
        all_ids = sorted(P.files)
        panel = sorted(rp.sample(all_ids, min(30 if q else 150, len(all_ids))))
        seeds = [1, 7] if q else [1, 2, 3, 7, 1234]
        scs = []
        from ..framework import resolved
        for part in range(0, len(panel), 10):
            sc = {"kind": "hashseed", "ops": [{"op": "api", "file": f} for f in panel[part:part + 10]]}
            scs.append(resolved(sc))
        # the same seam carries the interpreter's optimisation level (python -O / PYTHONOPTIMIZE): validation written as
        # `assert` disappears there. Victims: the files that are fatally unparsable alone (every distinct raise site first).
        fatal = sorted((f for f in all_ids if P.cls.get(f) == "fatal"), key=lambda f: (core.site_key(P.alone[f].get("site")) or "", f))
        seen, opt_panel = set(), []
        for f in fatal:
            k = core.site_key(P.alone[f].get("site"))
            if k not in seen or len(opt_panel) < (40 if q else 200):
                seen.add(k)
                opt_panel.append(f)
        opt_panel = opt_panel[: (80 if q else 400)]
        n_hs = len(scs)
        for part in range(0, len(opt_panel), 10):
            scs.append(resolved({"kind": "hashseed", "ops": [{"op": "api", "file": f} for f in opt_panel[part:part + 10]]}))
        self.ensure_refs(scs)
        for hs in seeds + (["O1"] if q else ["O1", "O2"]):
            env = dict(os.environ)
            env["NSIM_WORKERS"] = "4"
            if isinstance(hs, str):
                env["PYTHONHASHSEED"] = "0"
                env["PYTHONOPTIMIZE"] = hs[1:]
                todo = list(enumerate(scs))
            else:
                env["PYTHONHASHSEED"] = str(hs)
                todo = list(enumerate(scs))[:n_hs]
            self.run_shard(env, hs, todo)
        self.hashseeds = [0] + seeds
        self.stats["interpreter_optimisation_levels"] = [0, 1] if q else [0, 1, 2]

    def run_shard(self, env, hs, todo):
        if True:
            scs = [sc for _, sc in todo]
            p = subprocess.run([sys.executable, "-c",
                                "import sys; sys.path.insert(0, %r); from nsim import shard; shard.main()" % VERIF],
                               input=json.dumps(scs), capture_output=True, text=True, env=env, timeout=900)
            if p.returncode != 0:
                raise RuntimeError(f"hash-seed shard failed: {p.stderr[-2000:]}")
            rs = json.loads(p.stdout)
            for (j, sc), r in zip(todo, rs):
                self.evaluations += 1
                self.fire("hashseed" if not isinstance(hs, str) else "interpreter_optimize")
                self.distinct.add(("hashseed", hs, j))
                vs = self.judge(sc, r, self.refcache)
                if vs:
                    sc2 = dict(sc)
                    sc2["boot"] = {"hashseed": hs} if not isinstance(hs, str) else {"hashseed": 0, "optimize": int(hs[1:])}
                    self.record(6_000_000 + (hs if not isinstance(hs, str) else 900 + int(hs[1:])) * 1000 + j, sc2, vs)

    # ---- driver ----------------------------------------------------------------------------------------
    def run(self):
        self.tainted_after = {}
        self.fatal_sites = set()
        self.internal_sites = set()
        self.rule_orders = set()
        self.check_orders = set()
        self.order_by_spec = {}
        self.prepare()
        self.run_bulk(self.scenarios())
        tainters = sorted(self.tainted_after)
        self.stats["tainting_predecessors"] = {self.pools.files[t]["name"]: sorted(",".join(d) for d in self.tainted_after[t])
                                               for t in tainters[:20]}
        self.run_bulk(self.scenarios_phase2(tainters))
        self.run_bulk(self.scenarios_abort_points())
        self.run_bulk(self.scenarios_listing_bias())
        self.hashseed_phase()
        self.recheck_killed()
        self.stats["fatal_raise_sites_as_predecessor"] = len(self.fatal_sites)
        self.stats["internal_sites_as_predecessor"] = len(self.internal_sites)
        self.stats["distinct_primary_orders_under_listing_perms"] = len(self.rule_orders)
        self.stats["distinct_check_import_orders_under_listing_perms"] = len(self.check_orders)

    def shrinkers(self, sc, target):
        yield from generic_shrinkers(sc)
        # replace option variants by defaults
        import copy
        for i, op in enumerate(sc.get("ops", [])):
            if op.get("debug") or op.get("R"):
                c = copy.deepcopy(sc)
                c["ops"][i]["debug"] = 0
                c["ops"][i]["R"] = None
                yield c
            if op.get("opts"):
                c = copy.deepcopy(sc)
                n = len(op["opts"])
                c["ops"][i]["argv"] = c["ops"][i]["argv"][n:]
                c["ops"][i]["opts"] = []
                yield c


def named_of(sc):
    """The path -> file map of a scenario that states it explicitly; entries whose file a minimisation candidate has dropped
    are left out (the candidate then simply does not reproduce)."""
    out = {}
    for p, fid in (sc.get("named") or {}).items():
        try:
            file_of(sc, fid)
        except KeyError:
            continue
        out[p] = fid
    return out


def self_name(sc):
    tf = sorted(sc["named"].items()) if sc.get("named") else tree_files(sc["tree"])
    return os.path.basename(tf[0][0]) if tf else "?"
