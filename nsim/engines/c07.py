"""C07 - every statement is examined exactly once; nothing is skipped silently (DESIGN 4.7).

read-fault-sim with the conservation monitor: wrappers of Context.pop_tokens / Context.update /
Registry.run_rules record one event per iteration of the main loop. Invariants I1-I3 are evaluated
on every fault-free run; I4 on runs where the read seam delivered the program with an
unrecognisable fragment inserted at a statement boundary (every boundary, newline kept or lost)."""
import copy

from .. import core, faults
from ..framework import Engine, Violation, classify, generic_shrinkers
from ..pools import Pools
from .common import file_of, strip_ansi

FRAGMENTS = [")", "]", "= 3", "+ +", ": :", "42", "\"s\"", ".", "->", "@#", "}", "else", "? 1"]
# fragments no token rule matches at all (the lexer reports them as BAD_LEXEME and drops them); RAW ones are undecodable bytes
LEXICAL = ["@", "$ $", "`", "\u00a7"]
RAW = ["\xff\xfe", "\x80", "\xc3"]


def stmt_kind(line):
    s = line.strip()
    if not s:
        return "empty"
    if s.startswith("/*") or s.startswith("//"):
        return "comment"
    if s.startswith("#"):
        return "preproc"
    if s == "{":
        return "lbrace"
    if s.startswith("}"):
        return "rbrace"
    w = s.split("(")[0].split()[0] if s.split("(")[0].split() else s
    if w in ("if", "while", "else", "return", "break", "continue", "typedef", "struct", "enum", "union", "static"):
        return w
    if s.endswith(")"):
        return "funcdecl"
    if s.endswith(";"):
        return "stmt;"
    return "other"


class C07(Engine):
    prop = "C07"
    name = "read-fault-sim+conservation-monitor"
    level = "fault_enumeration"
    expected_kinds = {"fault_free", "garbage_nl_kept", "garbage_nl_lost", "lost_final_newline", "multi_file_garbage", "stray_eol", "lexical_garbage", "structure_variant"}
    rule_text = ("Fault-free: every workload file at API level with the conservation monitor (I1 for all; I2/I3 for the conforming "
                 "family - generated programs whatever their verdict, hand-written specials and repository samples the tool finds clean; "
                 "statement count and depth-by-construction for generated programs, statement count for count-preserving violations and "
                 "for a stray sequence at the end of EVERY preprocessor line). Fault-injecting, through the real main(): for every base "
                 "program and EVERY statement boundary, seeded fragments of the unrecognisable family, newline kept or lost, a third of "
                 "them under -f json; lexical garbage (ASCII junk and raw undecodable bytes) at every token-start boundary; the lost "
                 "final newline; multi-file runs with garbage in some files (I5). I4 is evaluated when the monitor saw an iteration that "
                 "matched no primary (measured, not assumed). Non-trivial = an unmatched iteration occurred (I4) or the file was in the "
                 "conforming family (I2/I3); distinct = distinct (kind of statement before the boundary, fragment, newline kept) triples, "
                 "multi-file shapes and matched-rule bigrams seen by I1-I3.")
    assumptions = ["'conforming' for I2/I3 means: the tool's own R-alone outcome has no diagnostic (measured)",
                   "a jump that claims more tokens than remain (eol() stepping past the end) is not flagged: nothing is skipped",
                   "I4 is asserted for default options only (under -d unrecognised tokens are tolerated by design)"]

    def setup(self):
        q = self.tier == "quick"
        self.pools = Pools(self.seed, n_gen=90 if q else 600, n_viol=60 if q else 400, n_cut=0, corpus_limit=None, tag="c07")
        self.pools.register()

    def scenarios(self):
        P = self.pools
        q = self.tier == "quick"
        idx = 0
        # A. fault-free
        for fid in sorted(P.files):
            yield idx, {"kind": "free", "generated": P.meta[fid]["group"] == "gen", "nstmts": P.meta[fid].get("nstmts"),
                        # I2/I3 speak about the conforming family: generated programs, the hand-written specials and the
                        # repository's samples - not about pool members made by inserting comments or cutting files
                        "family": P.meta[fid]["group"] in ("gen", "corpus", "corpus_headed") or P.meta[fid]["group"].startswith("special_"),
                        "count_known": P.meta[fid].get("nstmts") is not None,
                        "braces_known": P.meta[fid]["group"] == "gen" or bool(P.meta[fid].get("braces_known")),
                        "ops": [{"op": "api", "file": fid}]}
            idx += 1
        # A2. a stray character sequence at the end of EVERY preprocessor line of every generated program: the lexer drops it
        #     (BAD_LEXEME), the segmentation must stay what the generator emitted
        idx = 500_000
        for fid in P.groups.get("gen", []):
            f = P.files[fid]
            nst = P.meta[fid].get("nstmts")
            if nst is None:
                continue
            off = 0
            for ln in f["content"].split("\n"):
                end = off + len(ln)
                if ln.lstrip().startswith("#") and off > 0:
                    for tail in (" \\ ", " \\\t", " @", " $ "):
                        yield idx, {"kind": "free", "generated": False, "count_known": True, "nstmts": nst, "fault": "stray_eol",
                                    "files": {"x": {"name": f["name"], "base": fid, "splices": [[end, end, tail]], "fault_desc": f"stray_eol({tail!r})"}},
                                    "ops": [{"op": "api", "file": "x"}]}
                        idx += 1
                off = end + 1
        # A3. structure-preserving variants of every generated .c program whose brace structure stays what the generator emitted:
        #     control statements (with and without a labelled body) as the last statement of a function, labelled bodies, comment runs
        from ..workload import gen_violating
        idx = 700_000
        for fid in P.groups.get("gen", []):
            f = P.files[fid]
            for k, fop in enumerate(("label_last", "control_last", "label_body", "comment_run", "label_line", "nest_body", "nest_body", "type_end_declarator")):
                if not f["name"].endswith(".c") and fop != "type_end_declarator":
                    idx += 1
                    continue
                r = core.derive_rng("c07.struct", self.seed, idx)
                c2, op = gen_violating(r, f["name"], f["content"], force_op=fop)
                if c2 != f["content"]:
                    yield idx, {"kind": "free", "generated": False, "count_known": False, "nstmts": None, "braces_known": True, "fault": "structure_variant",
                                "files": {"x": {"name": f["name"], "content": c2, "origin": f"{P.meta[fid]['origin']}+{op}"}},
                                "ops": [{"op": "api", "file": "x"}]}
                idx += 1
        # A4. statements nested beyond what the interpreter's stack takes, alone and right after a stray closer: whatever the engine
        #     does about the overflow, no statement is examined twice and no unrecognised text is forgotten
        idx = 900_000
        from ..workload import ok_func
        for n in ((1500,) if q else (400, 1100, 1500, 4000)):
            for k, body in enumerate((f"\treturn ({'(' * n}0{')' * n});\n", f"\ta = {'(' * n}1{')' * n};\n\treturn (a);\n",
                                      f"\tif ({'(' * n}a{')' * n})\n\t\treturn (1);\n\treturn (0);\n",
                                      "\treturn (" + "(\\\n" * n + "0" + ")" * n + ");\n")):
                for pre in ("", ")\n", "\t) ", "]\n"):
                    content = ok_func("deep.c", body=pre + body)
                    sc = {"kind": "free" if not pre else "garbage", "fault": "structure_variant" if not pre else "garbage_nl_kept", "generated": False,
                          "count_known": False, "nstmts": None, "family": False, "desc": f"deep({n},{k},{pre!r})", "prev": "lbrace", "frag": pre.strip(),
                          "nl": pre.endswith("\n"), "at_eof": False,
                          "files": {"x": {"name": "deep.c", "content": content, "origin": f"deep:{n}:{k}"}}}
                    if pre:
                        sc["tree"] = {"deep.c": "@x"}
                        sc["ops"] = [{"op": "cli", "argv": ["--no-colors", "deep.c"]}]
                    else:
                        sc["ops"] = [{"op": "api", "file": "x"}]
                    yield idx, sc
                    idx += 1
        # B. garbage at every statement boundary (CLI level, default options)
        groups = ("gen", "special_clean", "special_notice", "corpus_headed", "viol", "special_erroneous")
        bases = []
        for g in groups:
            bases += P.groups.get(g, [])
        rng = core.derive_rng("c07.bases", self.seed, 0)
        gens = [b for b in bases if P.meta[b]["group"] in ("gen", "special_clean", "special_notice")]
        rest = [b for b in bases if b not in gens]
        rng.shuffle(rest)
        if q:
            bases = gens[:34] + rest[:10]   # every boundary of 44 base programs
        else:
            bases = gens[:150] + rest[:60]  # every boundary of 210 base programs, all fragments
        idx = 1_000_000
        for b in bases:
            f = P.files[b]
            content = f["content"]
            if len(content) > 6000 and q:
                continue
            offs = faults.statement_boundaries(content)
            lines = content.split("\n")
            r = core.derive_rng("c07.frag", self.seed, idx)
            for bi, off in enumerate(offs):
                prev = stmt_kind(lines[bi - 1]) if bi > 0 else "bof"
                frs = FRAGMENTS if not q else r.sample(FRAGMENTS, 2)
                for frag in frs:
                    for nl in (True, False):
                        text = frag + ("\n" if nl else "")
                        sc = {"kind": "garbage", "fault": "garbage_nl_kept" if nl else "garbage_nl_lost",
                              "desc": f"garbage(b={bi},{frag!r},nl={nl})", "prev": prev, "frag": frag, "nl": nl,
                              "at_eof": off == len(content),
                              "files": {"x": {"name": f["name"], "base": b, "splices": [[off, off, text]],
                                              "fault_desc": f"garbage({bi},{frag!r},{nl})"}},
                              "tree": {f["name"]: "@x"},
                              "ops": [{"op": "cli", "argv": (["--no-colors"] if (idx % 3) else ["-f", "json"]) + [f["name"]]}]}
                        yield idx, sc
                        idx += 1
            # lexical garbage (no token rule matches): at every boundary that is a token start (not inside a comment or literal)
            tok_starts = set(a for a, e, t in faults.token_offsets(core.N, f["name"], content)) | {len(content)}
            for bi, off in enumerate(offs):
                if off not in tok_starts:
                    continue
                prev = stmt_kind(lines[bi - 1]) if bi > 0 else "bof"
                picks = [r.choice(LEXICAL), r.choice(RAW)] if q else LEXICAL + RAW
                for frag in picks:
                    nl = r.random() < 0.7
                    fd = {"name": f["name"], "base": b, "fault_desc": f"lexgarbage({bi},{frag!r},{nl})"}
                    if frag in RAW:
                        import base64
                        fd["splices"] = []
                        fd["append_bytes_b64"] = base64.b64encode(frag.encode("latin-1") + (b"\n" if nl else b"")).decode()
                        fd["bytes_at"] = len(content[:off].encode("utf-8"))
                    else:
                        fd["splices"] = [[off, off, frag + ("\n" if nl else "")]]
                    yield idx, {"kind": "garbage", "fault": "lexical_garbage", "desc": fd["fault_desc"], "prev": prev, "frag": frag, "nl": nl,
                                "at_eof": off == len(content), "lexical": True,
                                "files": {"x": fd}, "tree": {f["name"]: "@x"}, "ops": [{"op": "cli", "argv": ["--no-colors", f["name"]]}]}
                    idx += 1
            # lost final newline
            if content.endswith("\n"):
                sc = {"kind": "garbage", "fault": "lost_final_newline", "desc": "prefix_tok(n-1)", "prev": "eof", "frag": "", "nl": False,
                      "at_eof": True,
                      "files": {"x": {"name": f["name"], "base": b, "splices": [[len(content) - 1, len(content), ""]],
                                      "fault_desc": "lost_final_newline"}},
                      "tree": {f["name"]: "@x"}, "ops": [{"op": "cli", "argv": ["--no-colors", f["name"]]}]}
                yield idx, sc
                idx += 1

    def multi_scenarios(self):
        """Several files in one run, some of them carrying an unrecognisable fragment: every file that gets a
        verdict must have been examined completely, exactly once (I5)."""
        P = self.pools
        q = self.tier == "quick"
        n = 500 if q else 10000
        bases = [f for g in ("gen", "special_clean", "special_notice", "special_erroneous", "viol", "special_zoo") for f in P.groups.get(g, [])
                 if len(P.files[f]["content"]) < 5000]
        for i in range(n):
            rng = core.derive_rng("c07.multi", self.seed, i)
            k = rng.randrange(2, 5)
            files = {}
            tree = {}
            argv = []
            for j in range(k):
                b = bases[rng.randrange(len(bases))]
                f = P.files[b]
                content = f["content"]
                sp = []
                desc = "none"
                if rng.random() < 0.55:
                    offs = faults.statement_boundaries(content)
                    where = rng.random()
                    off = offs[-1] if where < 0.4 else offs[rng.randrange(len(offs))]
                    frag = FRAGMENTS[rng.randrange(len(FRAGMENTS))]
                    nl = rng.random() < 0.5
                    sp = [[off, off, frag + ("\n" if nl else "")]]
                    desc = f"garbage({frag!r},nl={nl},eof={off == len(content)})"
                files[f"x{j}"] = {"name": f["name"], "base": b, "splices": sp, "fault_desc": desc}
                tree[f"d{j}"] = {f["name"]: f"@x{j}"}
                argv.append(f"d{j}/{f['name']}")
            mode = rng.random()
            fmt = ["--no-colors"] if rng.random() < 0.7 else ["-f", "json"]
            op = {"op": "cli", "argv": fmt + argv}
            if mode < 0.25:
                op = {"op": "cli", "argv": fmt + ["."], "glob_perms": [rng.randrange(1 << 30)]}
            elif mode < 0.35:
                op["argv"].append(argv[rng.randrange(len(argv))])
            yield 3_000_000 + i, {"kind": "multi", "fault": "multi_file_garbage", "files": files, "tree": tree, "ops": [op]}

    def check_I5(self, sc, o):
        vs = []
        if o.get("end") not in ("exit", "returned"):
            return vs
        mon = o.get("files_mon") or []
        bypath = {}
        for m in mon:
            bypath.setdefault(m["path"], []).append(m)
        reported = [f for rep in o.get("reports") or [] for f in rep["files"]]
        want_paths = {}
        for f in reported:
            want_paths[f["path"]] = want_paths.get(f["path"], 0) + 1
        for path, cnt in sorted(want_paths.items()):
            recs = bypath.get(path, [])
            if len(recs) < cnt:
                vs.append(Violation(self.prop, "C07.I5-every-reported-file-was-examined",
                                    "a file got a verdict line without having been examined", {"path": path, "verdicts": cnt, "examined": len(recs)}))
                continue
            for m in recs:
                if m["left"] != 0:
                    vs.append(Violation(self.prop, "C07.I5-every-reported-file-was-examined",
                                        "a file got a verdict although its tokens were not all consumed", {"path": path, "left": m["left"]}))
                    break
                if m["unmatched"]:
                    vs.append(Violation(self.prop, "C07.I4-no-silent-drop",
                                        "multi-file run: a file with unrecognised tokens got a verdict line", {"path": path, "unmatched": m["unmatched"]}))
                    break
        for m in mon:
            if m["min_stop"] is not None and m["min_stop"] < 1:
                vs.append(Violation(self.prop, "C07.I1-consumes-at-least-one", "an iteration consumed no token (multi-file run)", {"path": m["path"]}))
                break
        return vs

    # ---- invariants ---------------------------------------------------------------------------------
    def check_I1(self, o, where):
        vs = []
        if o.get("repeats"):
            r0 = o["repeats"][0]
            vs.append(Violation(self.prop, "C07.I1-examined-once", f"{r0[0]} was run twice on the same statement",
                                {"where": where, "tokens_left": r0[1], "repeats": o["repeats"]}))
        pops = o.get("pops") or []
        n = o.get("ntokens")
        prev_after = n
        for k, p in enumerate(pops):
            before, stop, after, rule = p[0], p[1], p[2], p[3]
            if not isinstance(stop, int) or stop < 1:
                vs.append(Violation(self.prop, "C07.I1-consumes-at-least-one", f"{rule or 'unrecognised'} popped {stop}",
                                    {"iteration": k, "where": where}))
                break
            if after != max(before - stop, 0):
                vs.append(Violation(self.prop, "C07.I1-consecutive", f"{rule or 'unrecognised'}: {before} - {stop} != {after}",
                                    {"iteration": k, "where": where}))
                break
            if prev_after is not None and before != prev_after:
                vs.append(Violation(self.prop, "C07.I1-consecutive", f"token list changed between iterations ({prev_after} -> {before})",
                                    {"iteration": k, "where": where}))
                break
            prev_after = after
        reported = [f for rep in o.get("reports") or [] for f in rep["files"]]
        if o.get("outcome") == "verdict" or (o.get("end") == "exit" and reported):
            left = pops[-1][2] if pops else n
            if left:
                vs.append(Violation(self.prop, "C07.I1-covers-whole-file", "a verdict was reached with tokens left unconsumed",
                                    {"where": where, "left": left}))
        return vs

    def judge(self, sc, res, refs):
        vs = []
        kind = sc.get("kind")
        o = res["ops"][0]
        if kind == "free":
            fid = sc["ops"][0]["file"]
            vs += self.check_I1(o, "fault-free" if not sc.get("fault") else sc["fault"])
            # I2/I3 hold for files the tool itself finds clean, and for generated programs whatever their verdict
            # (they are balanced and one-statement-per-line by construction; validated on 3 000 generated files)
            if (classify(o) == "clean" and sc.get("family", True)) or (sc.get("generated") and o.get("outcome") == "verdict"):
                pops = o["pops"]
                for k, p in enumerate(pops):
                    before, stop, after, rule, sname, lvl, first, lastt = p
                    if rule is None:
                        vs.append(Violation(self.prop, "C07.I2-aligned", "conforming file with an unmatched iteration", {"iteration": k}))
                        break
                    if first is not None and first[2] != 1:
                        vs.append(Violation(self.prop, "C07.I2-aligned", f"{rule} statement starts at column {first[2]}",
                                            {"iteration": k, "line": first[1]}))
                        break
                    if lastt != "NEWLINE" and stop < before:
                        vs.append(Violation(self.prop, "C07.I2-aligned", f"{rule} statement ends with {lastt}, not at a line end",
                                            {"iteration": k, "line": first[1] if first else None}))
                        break
                    if rule == "IsBlockEnd" and first and first[0] == "RBRACE" and first[2] == 1 and lvl != 0:
                        vs.append(Violation(self.prop, "C07.I3-depth", f"after a column-1 closing brace the scope is {sname} (level {lvl})",
                                            {"iteration": k, "line": first[1]}))
                        break
                fs = o.get("final_scope")
                if fs and fs[1] != 0:
                    vs.append(Violation(self.prop, "C07.I3-depth", f"run of a conforming file ends in scope {fs[0]} (level {fs[1]})", {}))
                if sc.get("generated"):
                    # generated programs: indentation == nesting depth by construction, so the scope level the engine is
                    # in before each statement must equal the number of leading tabs of that statement's line
                    lines = file_of(sc, fid)["content"].split("\n")
                    for a, b in zip(pops, pops[1:]):
                        if b[6] is None:
                            continue
                        ln = b[6][1]
                        text = lines[ln - 1] if 0 < ln <= len(lines) else ""
                        st = text.strip()
                        if not st or st.startswith("#") or st.startswith("/*") or st.startswith("//"):
                            continue
                        tabs = len(text) - len(text.lstrip("\t"))
                        want = a[5] - 1 if (st == "{" or st.startswith("}")) else a[5]
                        if tabs != want:
                            vs.append(Violation(self.prop, "C07.I3-depth", f"after {a[3]} the scope is {a[4]} (level {a[5]}) but the next statement is nested {tabs} deep by construction",
                                                {"line": ln, "text": text[:60]}))
                            break
                if sc.get("generated") and sc.get("nstmts") is not None:
                    want = sc["nstmts"]
                    if want != len(pops):
                        vs.append(Violation(self.prop, "C07.I2-statement-count", "generated file: the number of recognised statements differs from the number emitted",
                                            {"emitted": want, "recognised": len(pops)}))

            if sc.get("braces_known") and o.get("outcome") == "verdict":
                # brace structure known by construction: right after a `{` at t tabs the scope level is t+1, after a `}` at t tabs it is t
                lines = file_of(sc, fid)["content"].split("\n")
                for b in o["pops"]:
                    if b[6] is None:
                        continue
                    ln = b[6][1]
                    text = lines[ln - 1] if 0 < ln <= len(lines) else ""
                    st = text.strip()
                    tabs = len(text) - len(text.lstrip("\t"))
                    if (st == "{" and b[5] != tabs + 1) or (st.startswith("}") and b[5] != tabs):
                        vs.append(Violation(self.prop, "C07.I3-depth", f"after the {'opening' if st == '{' else 'closing'} brace of a block nested {tabs} deep the scope is {b[4]} (level {b[5]})",
                                            {"line": ln, "origin": file_of(sc, fid).get("origin")}))
                        break
            if sc.get("count_known") and not sc.get("generated") and o.get("outcome") == "verdict":
                # a generated program with a violation that leaves the segmentation alone: the statement count is still known
                if sc["nstmts"] != len(o["pops"]):
                    vs.append(Violation(self.prop, "C07.I2-statement-count",
                                        "violating variant of a generated file: the number of recognised statements differs from the number emitted",
                                        {"emitted": sc["nstmts"], "recognised": len(o["pops"]), "origin": file_of(sc, fid).get("origin")}))
        elif kind == "multi":
            if o.get("end") != "invalid-scenario":
                vs += self.check_I5(sc, o)
        elif kind == "garbage":
            vs += self.check_I1(o, "garbage")
            if sc.get("lexical") and o.get("end") == "exit":
                reported = [f for rep in o.get("reports") or [] for f in rep["files"]]
                if reported and reported[0]["status"] == "OK" and o.get("exit") == 0:
                    vs.append(Violation(self.prop, "C07.I4-no-silent-drop",
                                        "text no token rule matches was dropped: the file is reported OK! with status 0",
                                        {"fault": sc.get("desc"), "stdout_head": strip_ansi(o.get("stdout", ""))[:100]}))
            pops = o.get("pops") or []
            unmatched = [p for p in pops if p[3] is None]
            if unmatched and o.get("end") not in ("internal", "hang", "slow", "invalid-scenario"):
                out = strip_ansi(o.get("stdout", ""))
                name = sc["ops"][0]["argv"][-1]
                reported = [f for rep in o.get("reports") or [] for f in rep["files"]]
                fatal = (not reported) and f"{name}: Error!\n\t" in out and isinstance(o.get("exit"), int) and o.get("exit") != 0
                if not fatal:
                    verdict = reported[0]["status"] if reported else None
                    where = "at end of file without newline" if (sc.get("at_eof") and not sc.get("nl")) else \
                            ("at end of file" if sc.get("at_eof") else "inside the file")
                    vs.append(Violation(self.prop, "C07.I4-no-silent-drop",
                                        f"unrecognised tokens {where}: report printed ({verdict}!), exit {o.get('exit')}",
                                        {"fault": sc.get("desc"), "unmatched_first": unmatched[0][6], "stdout_head": out[:120]}))
        return vs

    def observe(self, idx, sc, r):
        kind = sc.get("kind")
        o = r["ops"][0]
        if kind == "free":
            self.fire(sc.get("fault") or "fault_free")
            c = classify(o)
            self.count("free_classes", c)
            pops = o.get("pops") or []
            for a, b in zip(pops, pops[1:]):
                self.bigrams.add((a[3], b[3]))
            self.sim_ticks += (o.get("ticks") or 0) + (o.get("lex_ticks") or 0)
        elif kind == "multi":
            self.fire("multi_file_garbage")
            mon = o.get("files_mon") or []
            self.count("multi_runs", "some_file_unrecognised" if any(m["unmatched"] for m in mon) else "all_recognised")
            self.distinct.add(("multi", len(mon), tuple(bool(m["unmatched"]) for m in mon)))
        else:
            self.fire(sc["fault"])
            pops = o.get("pops") or []
            un = any(p[3] is None for p in pops)
            self.count("garbage_runs", "unrecognised_seen" if un else "absorbed_by_a_rule")
            self.count("garbage_ends", o.get("end") + ("+report" if o.get("reports") else ""))
            if un:
                self.distinct.add((sc.get("prev"), sc.get("frag"), sc.get("nl")))
        if len(self.samples) < 5 and idx % 1499 == 11:
            f = file_of(sc, sc["ops"][0].get("file", "x")) if kind == "free" else file_of(sc, "x" if kind == "garbage" else "x0")
            self.samples.append({"run": idx, "kind": kind, "fault": sc.get("desc"), "file": f["name"], "origin": f.get("origin"),
                                 "iterations": len(o.get("pops") or []),
                                 "first_iterations": [(p[3], p[1]) for p in (o.get("pops") or [])[:6]]})

    def run(self):
        self.bigrams = set()
        self.sim_ticks = 0
        self.run_bulk(self.scenarios(), chunk=12)
        self.run_bulk(self.multi_scenarios(), chunk=8)
        self.recheck_killed()
        for b in self.bigrams:
            self.distinct.add(("bigram",) + b)
        self.stats["history_bigrams"] = len(self.bigrams)
        self.stats["sim_ticks"] = self.sim_ticks
