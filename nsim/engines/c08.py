"""C08 - reports are well-formed, ordered and identical in both output formats (DESIGN 4.8).

What the simulator varies: the emission order of diagnostics (seam S9: Errors._inner is permuted by
explicit permutations right before the report is formatted), the output format configuration, and the
damage of the input (read faults are what produce multi-highlight lexical diagnostics, several
diagnostics per position and non-ASCII text). W1/W2 are evaluated on every report of every run here;
W3 pairs each run with its `-f json` twin; W4 re-runs with K emission orders."""
import collections
import copy
import itertools
import json
import re

from .. import core, faults
from ..framework import Engine, Violation, classify, generic_shrinkers
from ..pools import Pools
from .common import file_of, strip_ansi, fsha

HUMAN_RE = re.compile(r"^(?P<level>Error|Notice): (?P<code>\S+)\s+\(line:\s*(?P<line>-?\d+), col:\s*(?P<col>-?\d+)\):\t(?P<text>.*)$")
VERDICT_RE = re.compile(r"^(?P<name>.+): (?P<v>OK|Error)!$")


def parse_human(text):
    """[(basename, verdict, [(level, code, line, col, text)...])...]"""
    files = []
    for ln in strip_ansi(text).split("\n"):
        m = HUMAN_RE.match(ln)
        if m and files:
            files[-1][2].append((m.group("level"), m.group("code"), int(m.group("line")), int(m.group("col")), m.group("text")))
            continue
        m = VERDICT_RE.match(ln)
        if m:
            files.append((m.group("name"), m.group("v"), []))
    return files


class C08(Engine):
    prop = "C08"
    name = "cli-sim+wellformedness-monitor"
    level = "exploration"
    expected_kinds = {"emit_perm", "format_json", "prefix_chr", "prefix_line", "line_tail_lost", "tok_edit", "non_ascii", "multi_file", "synthetic_lists", "hashseed", "none", "empty_selection", "ambient_env"}
    rule_text = ("Single- and multi-file runs of the real main() over damaged and undamaged workload files in both formats; each human "
                 "run is paired with its `-f json` twin (W3) and re-run with K explicit permutations of Errors._inner (W4); W1/W2 are "
                 "evaluated on every printed report. Synthetic diagnostic lists (positions from a 4x4 grid, 1-3 highlights, catalogue "
                 "names) are pushed through both formatters under permutations as the sampled substitute for the comparator-law "
                 "enumeration, which is not simulation and is not done. Non-trivial = the report contains >= 2 diagnostics for some "
                 "file; distinct = distinct multisets of (line, col, #highlights) per file.")
    assumptions = ["W3 applies to runs that print a report; a run that prints a fatal line prints it also under -f json (statement silent)",
                   "number of lines = lines of the content as delivered by the read seam (after universal-newline translation), at least 1",
                   "comparator laws over a small position domain are sampled through synthetic lists, not enumerated"]

    def setup(self):
        q = self.tier == "quick"
        self.pools = Pools(self.seed, n_gen=40 if q else 200, n_viol=30 if q else 300, n_cut=0, corpus_limit=None, tag="c08", big_family=True)
        self.pools.register()

    def prepare(self):
        self.pools.measure(self.pool)

    @property
    def catalogue(self):
        c = getattr(self, "_catalogue", None)
        if c is None:
            c = self._catalogue = dict(core.N.norm_error.errors)
        return c

    # ---- scenarios -------------------------------------------------------------------------------------
    def damaged(self, rng, b):
        """A derived file: the base with a seeded content fault (what a torn/corrupted read delivers)."""
        P = self.pools
        f = P.files[b]
        content = f["content"]
        L = len(content)
        kind = rng.choice(["none", "prefix_chr", "prefix_line", "prefix_line", "tok_edit", "tok_edit", "non_ascii", "lexical"])
        sp = []
        if kind == "prefix_chr":
            sp = [[rng.randrange(L + 1), L, ""]]
        elif kind == "prefix_line":
            # a short read that ends on a line boundary (the delivered content still ends with a newline)
            nls = [i for i, ch in enumerate(content) if ch == "\n"]
            cut = nls[rng.randrange(len(nls))] + 1 if nls else L
            sp = [[cut, L, ""]]
        elif kind == "tok_edit":
            from .c05 import LEXEMES
            for _ in range(rng.randrange(1, 3)):
                a = rng.randrange(L + 1)
                sp.append([a, min(L, a + rng.randrange(0, 3)), LEXEMES[rng.randrange(len(LEXEMES))]])
            sp = dedup_splices(sp)
        elif kind == "non_ascii":
            a = rng.randrange(L + 1)
            sp = [[a, a, rng.choice(["\u00e9", "\u4e16\u754c", "\u00f1", "\u00a0", "\u2003", "\U0001d4b3", "\x0c", "\x0b", "\x1c", "\x1e", "\x85",
                                     "\u2028", "\u2029", "\ufeff"])]]
        elif kind == "lexical":
            # things that yield multi-highlight / lexical diagnostics
            a = content.find(";\n")
            a = a if a >= 0 else rng.randrange(L + 1)
            ins = rng.choice([" 'ab'", " 'a", " 0b1202 + 0x1g2h", " \"abc", " '' + 'abcd' + 09 + 08", " 1.2.3 + 1e+ + 0xx1p1",
                              " 'a\n", " L'xy' + u8'", " @ $ `", " 0b12q + 017u8 + 1.0ff"])
            sp = [[a, a, ins]]
        return {"name": f["name"], "base": b, "splices": sp, "fault_desc": kind}, kind

    def scenarios(self):
        P = self.pools
        q = self.tier == "quick"
        ids = sorted(P.files)
        idx = 0
        n_single = 900 if q else 20000
        K = 10 if q else 50
        for i in range(n_single):
            rng = core.derive_rng("c08.single", self.seed, i)
            b = ids[rng.randrange(len(ids))]
            fd, kind = self.damaged(rng, b)
            nm = fd["name"]
            base_sc = {"kind": "single", "fault": kind, "files": {"x": fd}, "tree": {nm: "@x"}}
            sc = dict(base_sc)
            sc["ops"] = [{"op": "cli", "argv": ["-f", "json", nm]}]
            if i % 5 == 1:
                # S10: ambient environment (terminal geometry, colour conventions): both runs of the pair get it
                e = core.derive_rng("c08.env", self.seed, i)
                sc["ops"][0]["env"] = dict(e.sample([("COLUMNS", e.choice(["20", "40", "80"])), ("LINES", "24"), ("NO_COLOR", "1"), ("TERM", "dumb"),
                                                     ("FORCE_COLOR", "1"), ("LANG", "C")], e.randrange(1, 4)))
                sc["ambient"] = True
            yield idx, sc
            idx += 1
            if i % 3 == 0:
                # W4: K emission orders of the same run (only interesting with >= 2 diagnostics; decided after the fact)
                for k in range(K if i % 9 == 0 else 2):
                    sc = dict(base_sc)
                    sc["kind"] = "emit"
                    sc["ops"] = [{"op": "cli", "argv": ["--no-colors", nm], "emit_perms": [rng.randrange(1 << 30) if k else "rev"]}]
                    yield idx, sc
                    idx += 1
        # every hand-written special once, undamaged (the random draw above reaches each of them only now and then)
        idx = 500_000
        for b in ids:
            if P.meta[b]["group"].startswith("special_"):
                nm = P.files[b]["name"]
                yield idx, {"kind": "single", "fault": "none", "tree": {nm: "@" + b}, "ops": [{"op": "cli", "argv": ["-f", "json", nm]}]}
                idx += 1
        # runs that select no source at all: the JSON document still has to be one (with no files in it)
        idx = 600_000
        for tree, argv, cwd in (({"empty": {}}, ["empty"], "."), ({"docs": {"notes.txt": "x\n", "a.cpp": "int x;\n"}}, ["docs"], "."),
                                ({"empty": {}}, [], "empty"), ({"a": {"b": {"c": {}}}}, ["a"], "."), ({"e1": {}, "e2": {}}, ["e1", "e2"], ".")):
            yield idx, {"kind": "empty", "fault": "empty_selection", "tree": tree, "ops": [{"op": "cli", "argv": ["-f", "json"] + argv, "cwd": cwd}]}
            idx += 1
        # multi-file runs
        n_multi = 250 if q else 5000
        idx = 1_000_000
        nonfatal = [f for f in ids if P.cls[f] in ("clean", "notice", "erroneous")]
        for i in range(n_multi):
            rng = core.derive_rng("c08.multi", self.seed, i)
            k = rng.randrange(2, 6)
            tree = {}
            argv = []
            dn = core.derive_rng("c08.dirnames", self.seed, i)       # its own stream: the other draws stay what they were
            odd = dn.random() < 0.2
            for j in range(k):
                fid = nonfatal[rng.randrange(len(nonfatal))]
                d = f"d{j}"
                if odd and dn.random() < 0.6:
                    # directory names as old checkouts and archives have them: not valid UTF-8 (one raw byte, a lone surrogate
                    # in Python's str), non-ASCII, blanks, quotes, backslashes - the JSON output carries the full path
                    d = dn.choice(["caf\udce9", "d\u00edr\u4e16", "a b", "q\"uote", "back\\slash", "tab\there", "\udcff\udcfe"]) + str(j)
                fname = P.files[fid]["name"]
                if odd and dn.random() < 0.5:
                    # ... and file names that are legal here but mean something to another operating system's path rules
                    fname = dn.choice(["src\\", "c:", "..\\", "a\\b\\", "C:\\x\\"]) + fname
                tree[d] = {fname: "@" + fid}
                argv.append(f"{d}/{fname}")
            # the same source reached twice in one run: repeated path, another spelling, a directory plus a file in it
            r = rng.random()
            if r < 0.2:
                argv.append(argv[rng.randrange(len(argv))])
            elif r < 0.3:
                argv.append("./" + argv[rng.randrange(len(argv))])
            elif r < 0.4:
                argv.insert(rng.randrange(len(argv) + 1), argv[rng.randrange(k)].rsplit("/", 1)[0])
            if rng.random() < 0.2:
                # a source reached through a symbolic link whose name differs from its target
                j = rng.randrange(len(argv))
                tgt = argv[j] if argv[j].count("/") == 1 and not argv[j].startswith("./") else None
                if tgt:
                    ext = tgt.rsplit(".", 1)[-1]
                    tree[f"link{i % 7}.{ext}"] = "->" + tgt
                    argv.append(f"link{i % 7}.{ext}")
            yield idx, {"kind": "multi", "fault": "multi_file", "tree": tree, "ops": [{"op": "cli", "argv": ["-f", "json"] + argv}]}
            idx += 1
        # synthetic diagnostic lists through both formatters under permutations
        n_syn = 600 if q else 20000
        idx = 2_000_000
        names = sorted(self.catalogue)
        for i in range(n_syn):
            rng = core.derive_rng("c08.syn", self.seed, i)
            n = rng.randrange(2, 7)
            errs = []
            for _ in range(n):
                nh = rng.choice([1, 1, 1, 2, 3])
                hl = []
                for _ in range(nh):
                    hl.append([rng.randrange(1, 5), rng.randrange(1, 5), rng.choice([None, 1, 3]), rng.choice([None, None, "hint", "longer hint"])])
                # the producers in the code base list highlights in ascending position order
                if rng.random() < 0.8:
                    hl.sort(key=lambda h: (h[0], h[1]))
                errs.append({"name": names[rng.randrange(len(names))] if rng.random() < 0.7 else rng.choice(names[:3]),
                             "level": rng.choice(["Error", "Error", "Notice"]), "highlights": hl})
            perms = [None, "rev"] + [rng.randrange(1 << 30) for _ in range(4 if q else 8)]
            yield idx, {"kind": "synthetic", "fault": "synthetic_lists", "nlines": 4,
                        "ops": [{"op": "fmt", "files": [{"name": "s.c", "errors": errs}], "perms": perms}]}
            idx += 1

    def api_scenarios(self):
        """W1/W2 on the diagnostics of many damaged files at API level (cheap): every line-boundary short read of every
        pool program under both file types, and token-boundary short reads of a seeded subset."""
        P = self.pools
        q = self.tier == "quick"
        idx = 3_000_000
        ids = [f for f in sorted(P.files) if len(P.files[f]["content"]) < (6000 if q else 30000)]
        rng = core.derive_rng("c08.api", self.seed, 0)
        # token-boundary cuts (with and without a final newline): the repository's own samples, all of them - the positions
        # rules compute "one past the end" only show at particular cuts (measured: ~1e-4 of all token-boundary cuts)
        tokb = set(f for f in ids if P.meta[f]["group"] == "corpus") | set(rng.sample(ids, min(len(ids), 10 if q else 200)))
        for b in ids:
            f = P.files[b]
            content = f["content"]
            L = len(content)
            stem, ext = f["name"].rsplit(".", 1)
            names = [f["name"], f"{stem}.{'h' if ext == 'c' else 'c'}"]
            cuts = [i + 1 for i, ch in enumerate(content) if ch == "\n"]
            if b in tokb:
                cuts = sorted(set(cuts) | set(a for a, e, t in faults.token_offsets(core.N, f["name"], content)))
            nlset = set(i + 1 for i, ch in enumerate(content) if ch == "\n")
            for k, cut in enumerate(cuts):
                nm = names[k % 2] if b not in tokb else names[0]
                if cut in nlset:
                    yield idx, {"kind": "api", "fault": "prefix_line", "files": {"x": {"name": nm, "base": b, "splices": [[cut, L, ""]],
                                                                                        "fault_desc": f"prefix({cut})"}},
                                "ops": [{"op": "api", "file": "x"}]}
                    idx += 1
                if b in tokb and cut < L and content[cut - 1:cut] != "\n":
                    # the tail of a line lost, the file ending right after that (newline-terminated) line
                    yield idx, {"kind": "api", "fault": "line_tail_lost", "files": {"x": {"name": nm, "base": b, "splices": [[cut, L, "\n"]],
                                                                                           "fault_desc": f"line_tail_lost({cut})"}},
                                "ops": [{"op": "api", "file": "x"}]}
                    idx += 1

    # ---- references: the humanized twin of each json run, and the unpermuted run of each emit run --------
    def twin(self, sc):
        op = sc["ops"][0]
        argv = [a for a in op["argv"]]
        if argv[:2] == ["-f", "json"]:
            argv = ["--no-colors"] + argv[2:]
        t = {k: v for k, v in sc.items() if k in ("files", "tree")}
        t["ops"] = [{"op": "cli", "argv": argv}]
        if op.get("cwd"):
            t["ops"][0]["cwd"] = op["cwd"]
        if op.get("env"):
            t["ops"][0]["env"] = op["env"]
        key = ("c08twin", core.sha(json.dumps([self.tree_sig(sc), argv, op.get("cwd"), op.get("env")], sort_keys=True, default=str)), sc.get("twin_hashseed"))
        return key, t

    def ensure_refs(self, scs):
        """Twins that must run under another PYTHONHASHSEED (seam S7) are executed in a shard interpreter started with it."""
        special = [sc for sc in scs if sc.get("twin_hashseed") is not None and self.twin(sc)[0] not in self.refcache]
        for sc in special:
            import os
            import subprocess
            import sys
            from ..framework import resolved, VERIF
            key, t = self.twin(sc)
            env = dict(os.environ)
            env["PYTHONHASHSEED"] = str(sc["twin_hashseed"])
            env["NSIM_WORKERS"] = "1"
            p = subprocess.run([sys.executable, "-c", "import sys; sys.path.insert(0, %r); from nsim import shard; shard.main()" % VERIF],
                               input=json.dumps([resolved(t)]), capture_output=True, text=True, env=env, timeout=600)
            if p.returncode != 0:
                raise RuntimeError(f"hash-seed shard failed: {p.stderr[-1000:]}")
            self.refcache[key] = json.loads(p.stdout)[0]
        super().ensure_refs([sc for sc in scs if sc.get("twin_hashseed") is None])

    def tree_sig(self, sc):
        out = []

        def walk(node, prefix):
            for k, v in sorted(node.items()):
                if isinstance(v, dict):
                    walk(v, prefix + k + "/")
                elif isinstance(v, str) and v.startswith("@"):
                    out.append((prefix + k, fsha(file_of(sc, v[1:]))))
                else:
                    out.append((prefix + k, core.sha(v or "")))
        walk(sc.get("tree") or {}, "")
        return out

    def refs_needed(self, sc):
        if sc.get("kind") in ("single", "multi", "emit", "empty"):
            return [self.twin(sc)]
        return []

    # ---- oracles ---------------------------------------------------------------------------------------------
    def w1_w2(self, rep, where):
        vs = []
        for f in rep["files"]:
            d = f["diags"]
            if d is None:
                vs.append(Violation(self.prop, "C08.W1-wellformed", f"report iteration raised {f['status']}", {"where": where}))
                continue
            nl = max(1, f.get("nlines") or 1)
            prev = None
            for x in d:
                level, code, text, hls = x
                if code not in self.catalogue:
                    vs.append(Violation(self.prop, "C08.W1-wellformed", f"code {code} is not in the published catalogue", {"text": text, "where": where}))
                elif self.catalogue[code] != text:
                    vs.append(Violation(self.prop, "C08.W1-wellformed", f"text of {code} differs from the catalogue text", {"text": text, "where": where}))
                if level not in ("Error", "Notice"):
                    vs.append(Violation(self.prop, "C08.W1-wellformed", f"level {level!r}", {"code": code}))
                if not hls:
                    vs.append(Violation(self.prop, "C08.W1-wellformed", f"{code} carries no position", {}))
                    continue
                line, col = hls[0][0], hls[0][1]
                if not (isinstance(line, int) and isinstance(col, int)) or line < 1 or col < 1 or (f.get("nlines") is not None and line > nl):
                    vs.append(Violation(self.prop, "C08.W1-wellformed", f"position of {code} outside the file",
                                        {"line": line, "col": col, "nlines": f.get("nlines"), "where": where}))
                if prev is not None and (line, col) < prev:
                    vs.append(Violation(self.prop, "C08.W2-ascending-order", f"{'multi' if len(hls) > 1 else 'single'}-highlight diagnostic printed after a later position",
                                        {"position": [line, col], "previous": list(prev), "code": code, "where": where}))
                prev = (line, col)
        return vs

    def judge(self, sc, res, refs):
        vs = []
        kind = sc.get("kind")
        o = res["ops"][0]
        if kind == "synthetic":
            base = None
            for out in o["outs"]:
                if out.get("exc"):
                    vs.append(Violation(self.prop, "C08.W4-emission-order-independent", f"formatting raised {out['exc']} @ {core.site_key(out.get('site'))}",
                                        {"perm": out["perm"], "msg": out.get("excmsg")}))
                    continue
                cur = canon_order(out["order"])
                if base is None:
                    base = cur
                elif cur != base:
                    vs.append(Violation(self.prop, "C08.W4-emission-order-independent", "report depends on the emission order (synthetic list)",
                                        {"perm": out["perm"]}))
                    break
            for out in o["outs"][:1]:
                if out.get("exc"):
                    continue
                for f in parse_human(out["human"]):
                    prev = None
                    for lvl, code, line, col, text in f[2]:
                        if prev is not None and (line, col) < prev:
                            vs.append(Violation(self.prop, "C08.W2-ascending-order", "synthetic list: a diagnostic is printed after a later position",
                                                {"position": [line, col], "previous": list(prev)}))
                            break
                        prev = (line, col)
                try:
                    doc = json.loads(out["json"])
                    hj = [(e["name"], e["level"], e["highlights"][0]["lineno"], e["highlights"][0]["column"]) for e in doc["files"][0]["errors"]]
                    hh = [(c, lv, ln, co) for lv, c, ln, co, t in parse_human(out["human"])[0][2]]
                    if hj != hh:
                        vs.append(Violation(self.prop, "C08.W3-json-equals-human", "synthetic list: the two formats list different diagnostics/order", {}))
                except Exception as e:  # noqa
                    vs.append(Violation(self.prop, "C08.W3-json-equals-human", f"synthetic list: JSON output not parseable ({type(e).__name__})", {}))
            return vs
        if kind == "api":
            if o.get("outcome") != "verdict" or o.get("diags") is None:
                return []
            rep = {"files": [{"diags": o["diags"], "status": o.get("status"), "nlines": o.get("nlines")}]}
            return self.w1_w2(rep, "api")
        if o.get("end") in ("invalid-scenario", "hang", "slow", "internal"):
            return []
        key, _ = self.twin(sc)
        tw = refs[key]
        if tw.get("killed"):
            return []
        t = tw["ops"][0]
        byname = {}
        for pth, v in walk_tree(sc.get("tree") or {}):
            if isinstance(v, str) and v.startswith("@"):
                byname[pth] = core.nlines(file_of(sc, v[1:]).get("content", "").encode("utf-8", "surrogateescape"))
        for rep in o.get("reports") or []:
            for f in rep["files"]:
                # the number of lines is counted by the harness from what the read seam delivered, never taken from the
                # code under test (which could mis-split the content and then agree with itself)
                key = (f.get("path") or "")
                key = key[2:] if key.startswith("./") else key
                if key in byname:
                    f["nlines"] = byname[key]
            vs += self.w1_w2(rep, kind)
        if kind == "emit":
            # W4: identical report text whatever the emission order
            if o.get("reports") and t.get("reports"):
                a = [canon_diags(f["diags"]) for f in o["reports"][0]["files"]]
                b = [canon_diags(f["diags"]) for f in t["reports"][0]["files"]]
                if a != b:
                    vs.append(Violation(self.prop, "C08.W4-emission-order-independent", "report depends on the emission order",
                                        {"perm": sc["ops"][0].get("emit_perms")}))
            return vs
        # W3: json twin. A run in which some file was fatally unparsable prints the human fatal line under
        # -f json too; the statement is silent about that case (C04 only asks that the file be named).
        if kind == "empty" and o.get("end") in ("exit", "returned") and t.get("end") in ("exit", "returned"):
            out = o.get("stdout", "")
            try:
                doc = json.loads(out)
                ok = isinstance(doc, dict) and doc.get("files") == []
            except Exception:  # noqa
                ok = False
            if not ok and not parse_human(t.get("stdout", "")):
                vs.append(Violation(self.prop, "C08.W3-json-equals-human", "no source selected: the -f json run does not print a JSON document with no files",
                                    {"stdout_head": out[:80]}))
            return vs
        if not o.get("reports") or not t.get("reports"):
            return vs
        if ": Error!\n\t" in strip_ansi(t.get("stdout", "")):
            self.w3_skipped_fatal = getattr(self, "w3_skipped_fatal", 0) + 1
            return vs
        out = o.get("stdout", "")
        try:
            # valid JSON is a sequence of Unicode characters exchanged as UTF-8: a document holding a lone surrogate unescaped
            # (what Python makes of an undecodable byte of a path) cannot be written to a UTF-8 stdout at all
            out.encode("utf-8")
            doc = json.loads(out)
        except Exception as e:  # noqa
            vs.append(Violation(self.prop, "C08.W3-json-equals-human", "stdout of the -f json run is not one valid JSON document",
                                {"error": str(e)[:100], "stdout_head": out[:80]}))
            return vs
        human = parse_human(t.get("stdout", ""))
        stray = [ln for ln in strip_ansi(t.get("stdout", "")).split("\n") if ln.strip() and not HUMAN_RE.match(ln) and not VERDICT_RE.match(ln)]
        if stray and human:
            vs.append(Violation(self.prop, "C08.W3-json-equals-human", "the human-readable report has a line that is neither a verdict nor a diagnostic",
                                {"line": stray[0][:120]}))
            return vs
        jfiles = doc.get("files") if isinstance(doc, dict) else None
        if not isinstance(jfiles, list) or len(jfiles) != len(human):
            vs.append(Violation(self.prop, "C08.W3-json-equals-human", "the two formats describe a different number of files",
                                {"json": len(jfiles) if isinstance(jfiles, list) else None, "human": len(human)}))
            return vs
        for jf, hf in zip(jfiles, human):
            jn = str(jf.get("path", "")).rsplit("/", 1)[-1]
            if jn != hf[0] or jf.get("status") != hf[1]:
                vs.append(Violation(self.prop, "C08.W3-json-equals-human", "file name or verdict differs between the formats",
                                    {"json": [jn, jf.get("status")], "human": [hf[0], hf[1]]}))
                break
            je = []
            for e in jf.get("errors", []):
                h0 = (e.get("highlights") or [{}])[0]
                je.append((e.get("level"), e.get("name"), h0.get("lineno"), h0.get("column"), e.get("text")))
            if je != hf[2]:
                what = "order" if sorted(map(str, je)) == sorted(map(str, hf[2])) else "content"
                vs.append(Violation(self.prop, "C08.W3-json-equals-human", f"diagnostics differ between the formats ({what})",
                                    {"json": je[:4], "human": hf[2][:4]}))
                break
        return vs

    def observe(self, idx, sc, r):
        kind = sc.get("kind")
        o = r["ops"][0]
        if kind == "synthetic":
            self.fire("synthetic_lists")
            self.fire("emit_perm", len(o["outs"]))
            for f in sc["ops"][0]["files"]:
                self.distinct.add(("syn", tuple(sorted((e["highlights"][0][0], e["highlights"][0][1], len(e["highlights"])) for e in f["errors"]))))
            return
        if kind == "api":
            self.fire(sc.get("fault"))
            d = o.get("diags") or []
            if len(d) >= 2:
                self.distinct.add(("api", tuple(sorted((x[3][0][0], x[3][0][1], len(x[3])) for x in d if x[3]))))
            return
        if kind == "emit":
            self.fire("emit_perm")
        else:
            self.fire("format_json")
        fk = sc.get("fault")
        if fk in ("prefix_chr", "non_ascii", "multi_file", "prefix_line", "none", "empty_selection"):
            self.fire(fk)
        if sc.get("ambient"):
            self.fire("ambient_env")
        if any(len(f["diags"] or []) > 1000 for rep in o.get("reports") or [] for f in rep["files"]):
            self.count("lists", "with_more_than_1000_diagnostics")
        if fk in ("tok_edit", "lexical"):
            self.fire("tok_edit")
        for rep in o.get("reports") or []:
            for f in rep["files"]:
                d = f["diags"] or []
                if len(d) >= 2:
                    ms = tuple(sorted((x[3][0][0], x[3][0][1], len(x[3])) for x in d if x[3]))
                    self.distinct.add((kind == "emit", ms))
                    pos = [(x[3][0][0], x[3][0][1]) for x in d if x[3]]
                    if len(set(pos)) < len(pos):
                        self.count("lists", "with_ties")
                    if any(len(x[3]) > 1 for x in d):
                        self.count("lists", "with_multi_highlight")
                if any(ord(ch) > 127 for x in d for ch in x[2]):
                    self.count("lists", "with_non_ascii_text")
        if any(ord(ch) > 127 for ch in o.get("stdout", "")):
            self.count("lists", "stdout_non_ascii")
        if len(self.samples) < 5 and idx % 613 == 3:
            self.samples.append({"run": idx, "kind": kind, "fault": fk, "argv": sc["ops"][0]["argv"], "emit_perms": sc["ops"][0].get("emit_perms"),
                                 "n_diags": [len(f["diags"] or []) for rep in o.get("reports") or [] for f in rep["files"]]})

    def hashseed_phase(self):
        """Seam S7: the human-readable run and the JSON run of one command line are two processes; here they also get two
        different PYTHONHASHSEEDs. Files, verdicts, diagnostics and their order must still agree (W3)."""
        import os
        import subprocess
        import sys
        from ..framework import resolved, VERIF
        P = self.pools
        q = self.tier == "quick"
        nonfatal = [f for f in sorted(P.files) if P.cls[f] in ("clean", "notice", "erroneous")]
        scs = []
        for i in range(24 if q else 200):
            rng = core.derive_rng("c08.hs", self.seed, i)
            k = rng.randrange(3, 7)
            tree = {"src": {}}
            for j in range(k):
                fid = nonfatal[rng.randrange(len(nonfatal))]
                tree["src"][f"d{j}"] = {P.files[fid]["name"]: "@" + fid}
            argv = rng.choice([["src"], ["src", f"src/d0"], ["."], []])
            scs.append(resolved({"kind": "multi", "fault": "hashseed", "tree": tree, "ops": [{"op": "cli", "argv": ["-f", "json"] + argv}]}))
        twins = []
        for sc in scs:
            key, t = self.twin(sc)
            twins.append(resolved(t))
        for hs in ([3] if q else [3, 11, 101]):
            env = dict(os.environ)
            env["PYTHONHASHSEED"] = str(hs)
            env["NSIM_WORKERS"] = "4"
            p = subprocess.run([sys.executable, "-c", "import sys; sys.path.insert(0, %r); from nsim import shard; shard.main()" % VERIF],
                               input=json.dumps(twins), capture_output=True, text=True, env=env, timeout=900)
            if p.returncode != 0:
                raise RuntimeError(f"hash-seed shard failed: {p.stderr[-2000:]}")
            trs = json.loads(p.stdout)
            rs = self.pool.map(scs)
            for j, (sc, r, tr) in enumerate(zip(scs, rs, trs)):
                self.evaluations += 1
                self.fire("hashseed")
                if r.get("killed") or tr.get("killed"):
                    continue
                sc2 = dict(sc)
                sc2["twin_hashseed"] = hs
                key, _ = self.twin(sc2)
                self.refcache[key] = tr
                vs = self.judge(sc2, r, self.refcache)
                if vs:
                    self.record(6_000_000 + hs * 1000 + j, sc2, vs)
        self.hashseeds = [0] + ([3] if q else [3, 11, 101])

    def run(self):
        self.prepare()
        self.run_bulk(self.scenarios(), chunk=8)
        self.run_bulk(self.api_scenarios(), chunk=24)
        self.hashseed_phase()
        self.recheck_killed()


def walk_tree(tree, prefix=""):
    for k, v in sorted(tree.items()):
        if isinstance(v, dict):
            yield from walk_tree(v, prefix + k + "/")
        else:
            yield prefix + k, v


def canon_order(order):
    """Emission-order independence up to ties: diagnostics with the same printed position and the same
    code may appear in any order among themselves (the statement orders by position only)."""
    out = []
    for f in order:
        items = [(tuple(hl[0]) if hl else (), name, repr(hl)) for name, hl in f]
        out.append(group_sort(items))
    return out


def canon_diags(d):
    if d is None:
        return None
    items = [((x[3][0][0], x[3][0][1]) if x[3] else (), x[1], repr(x)) for x in d]
    return group_sort(items)


def group_sort(items):
    out = []
    i = 0
    while i < len(items):
        j = i
        while j < len(items) and items[j][:2] == items[i][:2]:
            j += 1
        out += sorted(items[i:j])
        i = j
    return out


def dedup_splices(sp):
    sp = sorted(sp, key=lambda s: (s[0], s[1]))
    out = []
    last_end = -1
    for a, b, t in sp:
        if a < last_end:
            continue
        out.append([a, b, t])
        last_end = max(b, a)
    return out
