"""C15 - exactly the requested C sources are checked: cli-sim on a real scratch file system (DESIGN 4.15).

A model tree (nested dict) is drawn per run and materialised under /dev/shm, so glob and pathlib are
the real ones; the order glob returns (seam S2) and the git peer (seam S4) are simulated. Oracles:
M-discover (independent walk of the model tree) and M-ignore (the stub's ignore set)."""
import collections
import copy
import json
import os

from .. import core
from ..framework import Engine, Violation, classify
from ..pools import Pools
from .common import ref_api, file_of, strip_ansi, tree_files, norm_rel
from .c04 import parse_stdout

C_NAMES = ["main.c", "a.c", "b.c", "util.h", "a.h", "my file.c", "a.b.c", "x.tar.h", "ft_x.c", "lib ft.h", "z.c", "types.h", "test.c",
           "main.copy.c", "a.c.c", "a.h.c", "util.h.h", "a.c (1).c",
           # glob metacharacters in FILE names (directory names with them stay outside the domain: the recursive pattern is built from
           # the directory name, and the statement is silent about that)
           "v[1].c", "v1.c", "a?.c", "ab.c", "x*.h", "[a].h", "@main.c", "@x.h", "+x.c", "a,b.c", "=.h"]
OTHER_NAMES = ["a.cc", "a.hh", "b.C", "c.H", "d.c.bak", "e.ch", "f.c~", "g.hpp", "c", "h", "Makefile", "README.md", "notes.txt",
               "a.cpp", "x.o", "ac", "a.c.orig", "dotc.", "k.ｃ", "@notes.txt", "@args"]
DIR_NAMES = ["src", "include", "lib", "sub dir", "v1.2", "d.c", "inc.h", "deep", "x", "objs.o", "a.b", "tests",
             "v[2]", "v2", "what?", "whats", "st*r", "star", "[ab]", "a", "b"]      # directories whose names read as glob patterns, next to what they would match


def is_special(v):
    """An entry that exists but is neither a regular file nor a directory (here: a link to a device): never a source."""
    return isinstance(v, str) and v.startswith("->/dev/")


def is_c(name):
    return name.endswith(".c") or name.endswith(".h")


VALUE_OPTS = ("-R", "-f", "--format", "--cfile", "--hfile", "--filename")


def split_argv(argv):
    """(flags, positional paths) of an argv built by this engine: options that take a value consume it."""
    flags, args = [], []
    skip = False
    for a in argv:
        if skip:
            flags.append(a)
            skip = False
        elif a in VALUE_OPTS:
            flags.append(a)
            skip = True
        elif a.startswith("-") and len(a) > 1:
            flags.append(a)
        else:
            args.append(a)
    return flags, args


class Model:
    """M-discover: independent walk of the model tree."""

    def __init__(self, tree):
        self.tree = tree

    def lookup(self, rel):
        """rel: normalised path relative to root ('' = root). Returns node or None."""
        if rel in ("", "."):
            return self.tree
        node = self.tree
        for part in rel.split("/"):
            if not isinstance(node, dict) or part not in node:
                return None
            node = node[part]
        return node

    def files_under(self, rel):
        """[(relpath, fidref)] regular .c/.h files below directory rel, recursively (hidden names excluded)."""
        node = self.lookup(rel)
        out = []

        def walk(n, prefix):
            for k in sorted(n):
                if k.startswith("."):
                    continue
                v = n[k]
                p = f"{prefix}{k}"
                if isinstance(v, dict):
                    walk(v, p + "/")
                elif is_c(k) and not is_special(v):
                    out.append((p, v))
        walk(node, (rel + "/") if rel not in ("", ".") else "")
        return out


def gen_tree(rng, small_files, fatal_files=()):
    n_entries = 0
    budget = rng.randrange(3, 26)

    def build(depth):
        nonlocal n_entries
        node = {}
        k = rng.randrange(0, 6 if depth else 7)
        for _ in range(k):
            if n_entries >= budget:
                break
            r = rng.random()
            if r < 0.45:
                nm = C_NAMES[rng.randrange(len(C_NAMES))]
                if nm not in node:
                    if rng.random() < 0.06:
                        node[nm] = rng.choice(["", "", "\n", " "])      # a source of zero bytes (or one): still a requested source
                    elif fatal_files and rng.random() < 0.08:
                        node[nm] = "@" + fatal_files[rng.randrange(len(fatal_files))]
                    else:
                        node[nm] = "@" + small_files[rng.randrange(len(small_files))]
                    n_entries += 1
            elif r < 0.48:
                # named like a source, but not a regular file: a link to a device (what a masked file looks like)
                nm = ["masked.c", "null.h", "dev.c"][rng.randrange(3)]
                if nm not in node:
                    node[nm] = "->/dev/null"
                    n_entries += 1
            elif r < 0.65:
                nm = OTHER_NAMES[rng.randrange(len(OTHER_NAMES))]
                if nm not in node:
                    node[nm] = "@" + small_files[rng.randrange(len(small_files))] if rng.random() < 0.5 else "not C\n"
                    n_entries += 1
            elif depth < 4:
                nm = DIR_NAMES[rng.randrange(len(DIR_NAMES))]
                if nm not in node:
                    n_entries += 1
                    node[nm] = build(depth + 1)
        return node
    return build(0)


def leaves(tree, prefix=""):
    for k, v in sorted(tree.items()):
        if isinstance(v, dict):
            yield from leaves(v, prefix + k + "/")
        else:
            yield prefix + k, v


def all_paths(tree, prefix=""):
    out = []
    for k, v in sorted(tree.items()):
        p = f"{prefix}{k}"
        out.append((p, isinstance(v, dict)))
        if isinstance(v, dict):
            out += all_paths(v, p + "/")
    return out


class C15(Engine):
    prop = "C15"
    name = "cli-sim"
    level = "exploration"
    expected_kinds = {"zero_byte_source", "device_link_named_like_a_source", "git_located_through_environment", "listing_perm", "gitignore", "git_rc128", "git_missing", "enoent_toctou", "missing_path", "bad_suffix",
                      "dir_arg", "no_arg", "dir_named_like_c", "same_twice"}
    rule_text = ("Per run a seeded model tree (depth <= 4, <= 25 entries; names with spaces, interior dots, look-alike suffixes, empty "
                 "directories, non-C files, directories whose own name ends in .c/.h) is materialised on a real scratch file system and "
                 "main() is run with 0..5 seeded arguments (files with good/bad suffix, directories, nested directories, '.', missing "
                 "paths, repetitions, a file plus its directory) from a seeded cwd, with and without --use-gitignore (stub git with a "
                 "model ignore set), every glob result permuted by an explicit permutation. Non-trivial = at least one file selected by "
                 "the model; distinct = distinct (canonical tree shape, argument-kind vector, gitignore on/off).")
    assumptions = ["outside the domain (statement silent, never flagged): names starting with '.', glob metacharacters in DIRECTORY names, "
                   "newlines, symbolic links, unreadable directories",
                   "git failing (rc 128 / binary missing): only 'ignored files never get a verdict' is asserted",
                   "file contents are of classes clean/notice/erroneous only (measured), so that no run aborts on a fatal file"]

    def setup(self):
        q = self.tier == "quick"
        self.pools = Pools(self.seed, n_gen=6, n_viol=6, n_cut=0, corpus_limit=4, tag="c15")
        self.pools.register()

    def prepare(self):
        P = self.pools
        P.measure(self.pool)
        # contents that stay non-fatal whatever the name: test under both a .c and a .h name
        cands = [f for f in sorted(P.files) if P.cls[f] in ("clean", "notice", "erroneous") and len(P.files[f]["content"]) < 2500]
        scs = []
        for f in cands:
            for nm in ("zz.c", "zz.h"):
                scs.append({"files": {"x": {"name": nm, "content": P.files[f]["content"]}}, "ops": [{"op": "api", "file": "x"}]})
        rs = self.pool.map(scs)
        ok = []
        for i, f in enumerate(cands):
            a, b = rs[2 * i], rs[2 * i + 1]
            if all((not r.get("killed")) and r["ops"][0]["outcome"] == "verdict" and r["ops"][0].get("diags") is not None for r in (a, b)):
                ok.append(f)
        self.small = ok[:40]
        # a few contents that are fatally unparsable whatever the name: main() reports them with a fatal line and goes on
        fat = [f for f in sorted(P.files) if P.cls[f] == "fatal" and len(P.files[f]["content"]) < 2500]
        scs = []
        for f in fat:
            for nm in ("zz.c", "zz.h"):
                scs.append({"files": {"x": {"name": nm, "content": P.files[f]["content"]}}, "ops": [{"op": "api", "file": "x"}]})
        rs = self.pool.map(scs)
        self.fatal = [f for i, f in enumerate(fat) if all((not r.get("killed")) and r["ops"][0]["outcome"] == "fatal" for r in (rs[2 * i], rs[2 * i + 1]))][:10]
        self.fatal_set = set(self.fatal)
        if len(self.small) < 5:
            raise RuntimeError("too few name-independent non-fatal pool files")

    def gen_scenario(self, rng, idx, config):
        tree = gen_tree(rng, self.small, self.fatal if config in ("plain", "git") else ())
        paths = all_paths(tree)
        files = [p for p, d in paths if not d]
        dirs = [p for p, d in paths if d]
        cwd = "."
        if dirs and rng.random() < 0.25:
            cwd = dirs[rng.randrange(len(dirs))]
        nargs = rng.randrange(0, 6)
        args = []
        kinds = []

        def rel(p):
            return os.path.relpath(p, cwd) if cwd != "." else p
        for _ in range(nargs):
            r = rng.random()
            if r < 0.35 and files:
                p = files[rng.randrange(len(files))]
                args.append(rel(p))
                kinds.append("file_c" if is_c(p) else "file_other")
            elif r < 0.65 and dirs:
                p = dirs[rng.randrange(len(dirs))]
                args.append(rel(p) + ("/" if rng.random() < 0.2 else ""))
                kinds.append("dir_like_c" if is_c(p) else "dir")
            elif r < 0.72:
                args.append(".")
                kinds.append("dot")
            elif r < 0.80 and config != "toctou":
                args.append(rng.choice(["missing.c", "nope/x.c", "ghost", "src/none.h"]))
                kinds.append("missing")
            elif r < 0.90 and args:
                args.append(args[rng.randrange(len(args))])
                kinds.append("again")
            elif files:
                p = files[rng.randrange(len(files))]
                args.append(rel(p))
                kinds.append("file+dir")
                d = os.path.dirname(p) or "."
                args.append(rel(d))
                kinds.append("dir")
        op = {"op": "cli", "argv": list(args), "cwd": cwd,
              "glob_perms": [rng.choice([None, "rev", rng.randrange(1 << 30), rng.randrange(1 << 30)]) for _ in range(8)]}
        sc = {"kind": "discover", "config": config, "tree": tree, "kinds": kinds, "ops": [op]}
        if config in ("git", "git128", "gitmissing", "realgit") or (config == "plain" and rng.random() < 0.0):
            rules = []
            for p, d in paths:
                if rng.random() < 0.25:
                    rules.append({"path": p, "neg": False})
            # negated patterns: re-include something (often something that was excluded above)
            for _ in range(rng.randrange(0, 3)):
                if paths and rng.random() < 0.6:
                    src = [r["path"] for r in rules] if (rules and rng.random() < 0.6) else [p for p, d in paths]
                    rules.append({"path": src[rng.randrange(len(src))], "neg": True})
            if rng.random() < 0.3:
                rng.shuffle(rules)
            for k, r in enumerate(rules):
                r["line"] = k + 1
            op["argv"] = ["--use-gitignore"] + op["argv"]
            op["git"] = {"rules": rules, "fault": None}
            if config == "git" and rng.random() < 0.25:
                # the repository is located through the environment (what a hook or a detached work tree looks like)
                op["git"]["needs_env"] = {"GIT_DIR": "/nonexistent/nsim.git", "GIT_WORK_TREE": "."}
            if config == "git128":
                op["git"]["fault"] = {"call": rng.randrange(0, 4), "kind": "rc128"}
            if config == "gitmissing":
                op["git"]["fault"] = {"call": rng.randrange(0, 3), "kind": "missing"}
            if config == "realgit":
                op["git"]["real"] = True
                sc["git_init"] = True
                tree[".gitignore"] = gitignore_text(rules)
        if config == "toctou":
            op["faults"] = [{"seam": "open", "call": rng.randrange(0, 4), "kind": "enoent"}]
        # other options before (and after) the paths: none of them may change which files are selected
        k = rng.random()
        if k < 0.25:
            op["argv"] = ["--no-colors"] + op["argv"]
        elif k < 0.45:
            pre = rng.choice([["-R", "CheckDefine"], ["-R", "Whatever"], ["-o"], ["-f", "humanized"], ["-o", "-R", "CheckForbiddenSourceHeader"]])
            op["argv"] = pre + op["argv"]
        elif k < 0.55:
            op["argv"] = op["argv"] + rng.choice([["-o"], ["--no-colors"], ["-R", "CheckDefine"]])
        return sc

    def scenarios(self):
        q = self.tier == "quick"
        plan = [("plain", 1300 if q else 60000), ("git", 450 if q else 24000), ("git128", 80 if q else 3000),
                ("gitmissing", 40 if q else 1500), ("toctou", 120 if q else 5000)]
        base = 0
        for config, n in plan:
            for i in range(n):
                rng = core.derive_rng(f"c15.{config}", self.seed, i)
                yield base + i, self.gen_scenario(rng, base + i, config)
            base += 1_000_000

    # ---- M-discover ---------------------------------------------------------------------------------------
    def model(self, sc):
        op = sc["ops"][0]
        cwd = op.get("cwd", ".")
        M = Model(sc["tree"])
        flags, args = split_argv(op["argv"])
        sel = []        # [(relpath, fidref)] with multiplicity, in no particular order
        rejected = []
        abort = False
        outside = False
        if not isinstance(M.lookup(norm_rel(".", cwd)), dict):
            # the cwd does not exist in this tree (a minimisation candidate deleted it): not a valid scenario
            return {"selected": [], "rejected": [], "abort": False, "outside": True, "gitignore": False}
        if not args:
            sel += M.files_under(norm_rel(".", cwd))
        for a in args:
            rel = norm_rel(a, cwd)
            if rel is None or rel.startswith(".."):
                outside = True
                break
            node = M.lookup(rel)
            if node is None or (a.endswith("/") and not isinstance(node, dict)):
                abort = True
                break
            if isinstance(node, dict):
                sel += M.files_under(rel)
            elif is_special(node):
                pass        # exists, is no file and no directory: nothing is selected and nothing is said
            else:
                base = rel.rsplit("/", 1)[-1]
                if is_c(base):
                    sel.append((rel, node))
                else:
                    rejected.append(base)
        return {"selected": sel, "rejected": rejected, "abort": abort, "outside": outside, "gitignore": "--use-gitignore" in flags}

    def refs_needed(self, sc):
        return []

    def judge(self, sc, res, refs):
        vs = []
        o = res["ops"][0]
        op = sc["ops"][0]
        m = self.model(sc)
        if m["outside"]:
            return []
        config = sc.get("config")
        end = o.get("end")

        def V(clause, site, **d):
            d["argv"] = op["argv"]
            d["cwd"] = op.get("cwd")
            d["stdout_head"] = strip_ansi(o.get("stdout", ""))[:240]
            return Violation(self.prop, clause, site, d)
        if end in ("hang", "slow", "invalid-scenario"):
            return []
        git = op.get("git") or {}
        rules = core.git_rules(git)

        def is_ignored(rel):
            return core.git_decide(rel, rules)[0]
        want = collections.Counter()
        for rel, ref in m["selected"]:
            if m["gitignore"] and is_ignored(rel):
                continue
            want[rel.rsplit("/", 1)[-1]] += 1
        got = collections.Counter()
        for rep in o.get("reports") or []:
            for f in rep["files"]:
                got[f["basename"]] += 1
        parsed = parse_stdout(o.get("stdout", ""))
        got_text = collections.Counter(n for n, v, fatal in parsed if fatal is None)
        # a fatally unparsable file is reported by its fatal line (which names its path): that is its verdict
        for n, v, fatal in parsed:
            if fatal is not None:
                got[n.rsplit("/", 1)[-1]] += 1
                got_text[n.rsplit("/", 1)[-1]] += 1
        if m["abort"]:
            ex = o.get("exit")
            if end == "internal" or (end == "exit" and ex not in (0, None)):
                return vs
            vs.append(V("C15.c-missing-path-aborts-nonzero", f"missing path but run ended {end} with status {ex}"))
            return vs
        if config in ("git128", "gitmissing", "toctou"):
            # statement silent about git failing / files vanishing: only "ignored files never get a verdict"
            if m["gitignore"]:
                ign_names = collections.Counter(rel.rsplit("/", 1)[-1] for rel, _ in m["selected"] if is_ignored(rel))
                not_ign = collections.Counter(rel.rsplit("/", 1)[-1] for rel, _ in m["selected"] if not is_ignored(rel))
                extra = got - not_ign
                if extra:
                    vs.append(V("C15.d-ignored-files-left-out", "an ignored file got a verdict although git failed later", extra=sorted(extra.elements())[:5]))
            if config == "toctou" and end == "exit" and o.get("exit") == 0 and sum(got.values()) < sum(want.values()):
                vs.append(V("C15.toctou-never-exit-0", "a selected file vanished before it was read, yet exit status 0"))
            return vs
        if end == "internal":
            if not want and not m["rejected"]:
                vs.append(V("C15.empty-selection", f"{o.get('exc')} with nothing selected", exc=o.get("excmsg")))
            else:
                vs.append(V("C15.run-ends-with-status", f"{o.get('exc')} @ {core.site_key(o.get('site'))}", exc=o.get("excmsg")))
            return vs
        if got != want:
            missing = want - got
            extra = got - want
            if extra and not missing:
                # classify: duplicates of selected files vs files never requested
                dup = all(want[n] > 0 for n in extra)
                under_c_dir = any("/" in rel and any(is_c(part) for part in rel.split("/")[:-1]) for rel, _ in m["selected"])
                if dup:
                    site = "a selected file is checked more often than it was mentioned" + (" (below a directory named like a C file)" if under_c_dir else "")
                elif m["gitignore"] and any(is_ignored(rel) and rel.rsplit("/", 1)[-1] in extra for rel, _ in m["selected"]):
                    site = "a git-ignored file got a verdict"
                    vs.append(V("C15.d-ignored-files-left-out", site, extra=sorted(extra.elements())[:6]))
                    return vs
                else:
                    site = "a file that was not requested got a verdict"
                vs.append(V("C15.a-exactly-the-requested-files", site, extra=sorted(extra.elements())[:6]))
            elif missing and not extra:
                if m["gitignore"]:
                    site = "a requested, not ignored file got no verdict (--use-gitignore)"
                else:
                    site = "a requested file got no verdict"
                vs.append(V("C15.a-exactly-the-requested-files", site, missing=sorted(missing.elements())[:6]))
            else:
                vs.append(V("C15.a-exactly-the-requested-files", "verdict multiset differs from the model (missing and extra)",
                            missing=sorted(missing.elements())[:6], extra=sorted(extra.elements())[:6]))
        elif config in ("plain", "git") and self.examined_mismatch(o, sum(want.values())):
            vs.append(V("C15.a-checked-means-examined", "a file got a verdict line without having been analysed (or was analysed more often than reported)",
                        examined=len(o.get("files_mon") or []), verdicts=sum(want.values())))
        elif got_text != got:
            vs.append(V("C15.a-reported-under-base-name", "verdict lines on stdout do not name the checked files by base name",
                        lines=sorted(got_text.elements())[:6], files=sorted(got.elements())[:6]))
        out = strip_ansi(o.get("stdout", ""))
        for name in m["rejected"]:
            if f"{name!r} is not valid C or C header file" not in out and f"'{name}' is not valid" not in out and name not in out:
                vs.append(V("C15.b-other-suffix-rejected-with-message", "a named file with another suffix was not rejected with a message", name=name))
                break
        return vs

    @staticmethod
    def examined_mismatch(o, n_verdicts):
        """'Checked' means analysed: one Context per verdict (the conservation monitor counts the Contexts created)."""
        mon = o.get("files_mon")
        if mon is None or o.get("end") != "exit":
            return False
        return len(mon) != n_verdicts

    def observe(self, idx, sc, r):
        o = r["ops"][0]
        m = self.model(sc)
        cfg = sc.get("config")
        self.count("configs", cfg)
        if any(s is not None for s in sc["ops"][0].get("glob_perms") or []):
            self.fire("listing_perm")
        if (sc["ops"][0].get("git") or {}).get("needs_env"):
            self.fire("git_located_through_environment")
        if any(isinstance(v, str) and v == "" and is_c(p.rsplit("/", 1)[-1]) for p, v in leaves(sc.get("tree") or {})):
            self.fire("zero_byte_source")
        if "->/dev/null" in json.dumps(sc.get("tree")):
            self.fire("device_link_named_like_a_source")
        if m["gitignore"]:
            self.fire("gitignore")
        if cfg == "git128":
            self.fire("git_rc128")
        if cfg == "gitmissing":
            self.fire("git_missing")
        if cfg == "toctou":
            self.fire("enoent_toctou")
        for k in sc.get("kinds", []):
            if k == "missing":
                self.fire("missing_path")
            elif k == "file_other":
                self.fire("bad_suffix")
            elif k in ("dir", "dot", "file+dir"):
                self.fire("dir_arg")
            elif k == "dir_like_c":
                self.fire("dir_named_like_c")
                self.fire("dir_arg")
            elif k == "again":
                self.fire("same_twice")
        if not sc.get("kinds"):
            self.fire("no_arg")
        if any(is_c(p) and d for p, d in all_paths(sc["tree"])):
            self.count("trees", "with_dir_named_like_c")
        self.count("ends", f"{o.get('end')}:{o.get('exit') if o.get('end') == 'exit' else o.get('exc')}")
        if m["selected"]:
            shape = core.sha(repr(shape_of(sc["tree"])))
            self.distinct.add((shape, tuple(sc.get("kinds", [])), m["gitignore"]))
        if len(self.samples) < 5 and idx % 397 == 5:
            self.samples.append({"run": idx, "config": cfg, "tree": shape_of(sc["tree"]), "argv": sc["ops"][0]["argv"],
                                 "cwd": sc["ops"][0].get("cwd"), "glob_perms": sc["ops"][0].get("glob_perms"),
                                 "git": sc["ops"][0].get("git"), "verdicts": sorted(f["basename"] for rep in o.get("reports") or [] for f in rep["files"])})

    def run(self):
        self.prepare()
        self.run_bulk(self.scenarios(), chunk=8)
        self.recheck_killed()
        self.validate_stub()

    def validate_stub(self):
        """Thorough tier (and a handful in quick): the same scenarios against the real git binary in a real
        repository; SimGit must have led to the same verdict multiset."""
        import shutil as sh
        if sh.which("git") is None:
            self.stats["stub_validation"] = "git binary not found: skipped"
            return
        # a usable git (able to create a repository in the scratch area) is a precondition of the validation, not of the check
        import subprocess as _sp
        import tempfile as _tf
        probe = _tf.mkdtemp(prefix="nsim-gitprobe-", dir=core.SCRATCH_BASE)
        try:
            ok = _sp.run(["git", "init", "-q"], cwd=probe, capture_output=True, timeout=30).returncode == 0 and \
                _sp.run(["git", "check-ignore", "-q", "x"], cwd=probe, capture_output=True, timeout=30).returncode == 1
        except Exception:  # noqa
            ok = False
        finally:
            sh.rmtree(probe, ignore_errors=True)
        if not ok:
            self.stats["stub_validation"] = "git cannot create a repository here: validation skipped"
            return
        n = 16 if self.tier == "quick" else 80
        scs_real, scs_sim = [], []
        for i in range(n):
            rng = core.derive_rng("c15.realgit", self.seed, i)
            sc = self.gen_scenario(rng, i, "realgit")
            sc["ops"][0]["glob_perms"] = None
            sim = copy.deepcopy(sc)
            sim["ops"][0]["git"]["real"] = False
            sim.pop("git_init", None)
            scs_real.append(sc)
            scs_sim.append(sim)
        rr = self.pool.map(scs_real)
        rs = self.pool.map(scs_sim)
        agree = 0
        for sc, a, b in zip(scs_real, rr, rs):
            if a.get("killed") or b.get("killed"):
                continue
            va = sorted(f["basename"] for rep in a["ops"][0].get("reports") or [] for f in rep["files"])
            vb = sorted(f["basename"] for rep in b["ops"][0].get("reports") or [] for f in rep["files"])
            if va == vb and a["ops"][0].get("exit") == b["ops"][0].get("exit"):
                agree += 1
            else:
                raise RuntimeError(f"SimGit disagrees with the real git binary: argv={sc['ops'][0]['argv']} rules={sc['ops'][0]['git']['rules']} "
                                   f"real={va} sim={vb} stderr={a['ops'][0].get('stderr', '')[:200]}")
        # and the model itself, path by path, against the real binary: plain and verbose mode
        import subprocess
        import tempfile
        import shutil as sh2
        pairs = 0
        for i in range(n):
            rng = core.derive_rng("c15.realgit.paths", self.seed, i)
            sc = self.gen_scenario(rng, i, "realgit")
            rules = core.git_rules(sc["ops"][0]["git"])
            ex = core.Executor(poolmod_resolve(sc))
            ex.make_tree(sc["tree"])
            root = ex.scratch
            try:
                subprocess.run(["git", "init", "-q"], cwd=root, capture_output=True, timeout=30)
                for rel, isdir in all_paths(sc["tree"]):
                    if isdir or rel.startswith("."):
                        continue
                    for mode in ("-q", "-v"):
                        rc = subprocess.run(["git", "check-ignore", mode, rel], cwd=root, capture_output=True, timeout=30).returncode
                        ig, rule = core.git_decide(rel, rules)
                        want = 0 if (ig if mode == "-q" else rule is not None) else 1
                        pairs += 1
                        if rc != want:
                            raise RuntimeError(f"SimGit model disagrees with the real git binary: `git check-ignore {mode} {rel}` -> {rc}, "
                                               f"model {want}; rules={rules}")
            finally:
                sh2.rmtree(root, ignore_errors=True)
        self.stats["stub_validation"] = (f"{agree} scenarios agreed with the real git binary; {pairs} (path, mode) decisions of the model "
                                         f"equal `git check-ignore -q/-v`")
        self.traces_validated = agree

    def coverage(self):
        return {"stub_validated_against_real_git": getattr(self, "traces_validated", 0)}

    def shrinkers(self, sc, target):
        from ..framework import generic_shrinkers
        yield from generic_shrinkers(sc)
        op = sc["ops"][0]
        if op.get("cwd", ".") != ".":
            pass
        g = op.get("git")
        if g and g.get("rules"):
            for j in range(len(g["rules"])):
                c = copy.deepcopy(sc)
                del c["ops"][0]["git"]["rules"][j]
                yield c


def poolmod_resolve(sc):
    from .. import pool as poolmod
    return poolmod.resolve_files(sc)


def gitignore_text(rules):
    out = ""
    for r in rules:
        pat = "/" + r["path"].replace("\\", "\\\\").replace(" ", "\\ ")
        for ch in "[]*?":        # the rules of the model are literal paths: escape what .gitignore would read as a pattern
            pat = pat.replace(ch, "\\" + ch)
        out += ("!" if r["neg"] else "") + pat + "\n"
    return out


def shape_of(tree):
    out = {}
    for k, v in sorted(tree.items()):
        out[k] = shape_of(v) if isinstance(v, dict) else ("C" if isinstance(v, str) and v.startswith("@") else "t")
    return out
