"""C16 - options change the presentation, never the findings: cli-sim over the option lattice (DESIGN 4.16).

The simulator varies the *configuration* of the run: every one of the 216 option vectors
{--no-colors} x {-f json|humanized} x {-o} x {none,-d,-dd} x {none,-R <word>,-R CheckDefine} x {file on disk, inline}
for each sampled workload file, plus the input channel (disk read through the open seam vs argv)."""
import copy
import itertools
import json

from .. import core
from ..framework import Engine, Violation, classify
from ..pools import Pools
from .common import file_of, strip_ansi, fsha

RULE_WORDS = ["CheckLineLen", "CheckSpacing", "CheckHeader", "CheckOperatorsSpacing", "CheckPreprocessorDefine", "IsComment", "IsFuncDeclaration",
              "CheckGlobalNaming", "CheckLineCount", "Rule", "Check", "Primary"]
WORDS = ["Whatever", "CheckForbiddenSourceHeader", "checkdefine", "CheckDefineX", "", "42"]


def vectors(word):
    out = []
    for nocol, fmt, o, dbg, R, inline in itertools.product((0, 1), ("humanized", "json"), (0, 1), (0, 1, 2), (None, "word", "CheckDefine"),
                                                           (0, 1, 2)):
        out.append({"nocol": nocol, "fmt": fmt, "o": o, "dbg": dbg, "R": (word if R == "word" else R), "Rkind": R, "inline": inline})
    return out


def argv_of(v, name, content):
    a = []
    if v["nocol"]:
        a.append("--no-colors")
    if v["fmt"] == "json":
        a += ["-f", "json"]
    elif v.get("fmt_explicit"):
        a += ["-f", "humanized"]
    if v["o"]:
        a.append("-o")
    if v["dbg"] == 1:
        a.append("-d")
    elif v["dbg"] == 2:
        a.append("-dd")
    if v["R"] is not None:
        a += ["-R", v["R"]]
    if v["inline"]:
        # inline 1: the flag matching the name's type; inline 2: the other flag - with --filename the name decides
        flag = "--hfile" if name.endswith(".h") else "--cfile"
        if v["inline"] == 2:
            flag = "--cfile" if flag == "--hfile" else "--hfile"
        a += [f"{flag}={content}", f"--filename={name}"]
    else:
        a.append(name)
    return a


def file_result(o):
    """(verdict, [(level, code, line, col)...], texts) of a single-file CLI op as *printed* (the report text is
    parsed, in whichever format was requested), or None if no verdict was reached."""
    if o.get("end") != "exit" or not o.get("reports"):
        return None
    rep = o["reports"][0]
    fs = rep["files"]
    if len(fs) != 1 or fs[0]["diags"] is None:
        return None
    text = rep["text"]
    try:
        if rep["format"].startswith("JSON"):
            doc = json.loads(text)
            jf = doc["files"]
            if len(jf) != 1:
                return ("?", [("?", f"{len(jf)} files in the JSON document", None, None)], [])
            d = [(e["level"], e["name"], e["highlights"][0]["lineno"] if e["highlights"] else None,
                  e["highlights"][0]["column"] if e["highlights"] else None) for e in jf[0]["errors"]]
            return (jf[0]["status"], d, [e["text"] for e in jf[0]["errors"]])
        from .c08 import parse_human
        hf = parse_human(text)
        if len(hf) != 1:
            return ("?", [("?", f"{len(hf)} verdict lines in the report", None, None)], [])
        return (hf[0][1], [(lv, c, ln, co) for lv, c, ln, co, t in hf[0][2]], [t for lv, c, ln, co, t in hf[0][2]])
    except Exception as e:  # noqa - unparsable report text is a finding of its own, reported as a differing result
        return ("?", [("?", f"report not parseable: {type(e).__name__}", None, None)], [])


def parse_report(rep):
    """[(basename, (verdict, [(level, code, line, col)…], texts))…] of a printed report, in whichever format."""
    text = rep["text"]
    try:
        if rep["format"].startswith("JSON"):
            doc = json.loads(text)
            out = []
            for jf in doc["files"]:
                d = [(e["level"], e["name"], e["highlights"][0]["lineno"] if e["highlights"] else None,
                      e["highlights"][0]["column"] if e["highlights"] else None) for e in jf["errors"]]
                out.append((str(jf["path"]).rsplit("/", 1)[-1], (jf["status"], d, [e["text"] for e in jf["errors"]])))
            return out
        from .c08 import parse_human
        return [(nm, (vd, [(lv, c, ln, co) for lv, c, ln, co, t in ds], [t for lv, c, ln, co, t in ds])) for nm, vd, ds in parse_human(text)]
    except Exception:  # noqa
        return None


def short_argv(argv):
    return [x if len(x) < 60 else x[:57] + "..." for x in argv]


class C16(Engine):
    prop = "C16"
    name = "cli-sim"
    level = "exploration"
    expected_kinds = {"options", "channel_inline", "R_CheckDefine", "R_word", "debug", "format_json", "only_filename", "no_colors", "multi_file"}
    rule_text = ("For every sampled workload file (all classes, both file types) ALL 216 option vectors are executed through the real "
                 "main(); the reference vector is `--no-colors -f humanized`, file on disk. Non-trivial = both the reference and the "
                 "variant reached a verdict (so (a) is comparable); distinct = distinct (option vector, file class) pairs among those. "
                 "The option lattice is exhaustive per file; the files are sampled.")
    assumptions = ["domain: contents without CR and NUL (argv cannot carry NUL; universal newlines make CRLF another content on disk)",
                   "(a) compares verdict and (level, code, line, column) of the printed (first) highlight, texts after stripping ANSI",
                   "(b) the set of #define-value codes is measured per run from which check class called Errors.add, not hard-coded",
                   "runs that reach no verdict under one of the two vectors are counted and excluded from (a), as the statement says"]

    def setup(self):
        q = self.tier == "quick"
        self.pools = Pools(self.seed, n_gen=30 if q else 250, n_viol=60 if q else 400, n_cut=14 if q else 250,
                           corpus_limit=None, tag="c16", depth_family=True)
        self.pools.register()

    def prepare(self):
        P = self.pools
        # channel edge cases: contents whose ends differ in white space (argv strings vs file reads)
        rng0 = core.derive_rng("c16.edge", self.seed, 0)
        srcs = [f for f in sorted(P.files) if P.meta[f]["group"] in ("gen", "special_clean", "special_erroneous", "viol")]
        self.edge_ids = []
        # contents without any line feed whose literals carry escape sequences: what a caller that "cannot pass a line feed" might
        # be thought to mean by backslash-n is not what the C text means
        for k, c2 in enumerate(("char\tg_nl = '\\n';", "char\t*g_s = \"a\\tb\\n\";", "int\tg_a = '\\t' + '\\\\' + '\\n';",
                                "# define NL '\\n'")):
            self.edge_ids.append(P.add("edge", f"oneline{k}.{'h' if c2.startswith('#') else 'c'}", c2, f"oneline:{k}"))
        for b in rng0.sample(srcs, min(4 if self.tier == "quick" else 40, len(srcs))):
            c = P.files[b]["content"]
            for tag, c2 in (("+sp", c + " "), ("+tab", c + "\t"), ("-nl", c.rstrip("\n")), ("+nl", c + "\n"), ("sp+", " " + c),
                            ("bom+", "\ufeff" + c), ("nbsp+", "\u00a0" + c), ("+ff", c + "\x0c")):
                fid = P.add("edge", P.files[b]["name"], c2, f"{P.meta[b]['origin']}{tag}")
                self.edge_ids.append(fid)
        # violations placed late in long functions (checks that look far back in the statement history behave differently there)
        self.late_ids = []
        longs = sorted((f for f in P.groups.get("gen", []) if P.files[f]["content"].count("\n") > 60), key=lambda f: -len(P.files[f]["content"]))
        for k, b in enumerate(longs[: (8 if self.tier == "quick" else 60)]):
            for j in range(2):
                r = core.derive_rng("c16.late", self.seed, k * 10 + j)
                lines = P.files[b]["content"]
                from ..workload import gen_violating
                for _ in range(40):
                    c2, op = gen_violating(r, P.files[b]["name"], lines)
                    if op in ("comment_in_func_late", "decl_late"):
                        self.late_ids.append(P.add("late", P.files[b]["name"], c2, f"{P.meta[b]['origin']}+{op}"))
                        break
        P.register()
        P.measure(self.pool)
        q = self.tier == "quick"
        rng = core.derive_rng("c16.files", self.seed, 0)
        cands = [f for f in sorted(P.files) if "\r" not in P.files[f]["content"] and "\x00" not in P.files[f]["content"]
                 and len(P.files[f]["content"]) < (6000 if q else 20000)]
        # all classes represented; files with #define are wanted for (b)
        # files in which the #define-value check actually emits something (measured) come first, for (b)
        emits = [f for f in cands if any(rule == "CheckPreprocessorDefine" for _, rule in (P.alone[f].get("who") or []))]
        hasdef = [f for f in cands if f not in emits and ("#define" in P.files[f]["content"] or "# define" in P.files[f]["content"])]
        rng.shuffle(emits)
        withdef = emits[: max(6, len(emits) // 2 if not q else 8)] + hasdef
        rng.shuffle(cands)
        n = 56 if q else 1200
        # files with a diagnostic that carries several highlights at different positions (the formats must agree on which one is shown)
        multi_hl = [f for f in cands if any(len(set((h[0], h[1]) for h in d[3])) > 1 for d in (P.alone[f].get("diags") or []))]
        rng.shuffle(multi_hl)
        self.depth_ids = set(f for f in cands if P.meta[f]["group"] == "special_depth")
        zoo = [f for f in cands if P.meta[f]["group"] == "special_zoo"] + sorted(self.depth_ids) + multi_hl[: (6 if q else 60)]
        late = [f for f in cands if P.meta[f]["group"] == "viol" and any(t in P.meta[f]["origin"] for t in ("_late", "late_", "long_preamble"))]
        zoo += late[: (4 if q else 100)] + [f for f in self.late_ids if f in cands]
        chosen = withdef[: n // 3] + [f for f in self.edge_ids if f in cands][: n // 3] + zoo
        for cls, k in (("fatal", n // 8), ("notice", n // 12), ("clean", n // 6)):
            chosen += [f for f in cands if P.cls[f] == cls and f not in chosen][:k]
        for f in cands:
            if len(chosen) >= n:
                break
            if f not in chosen:
                chosen.append(f)
        self.chosen = sorted(chosen)
        for f in self.chosen:
            self.count("file_classes", P.cls[f])

    def scenarios(self):
        P = self.pools
        idx = 0
        for fi, fid in enumerate(self.chosen):
            f = P.files[fid]
            rng = core.derive_rng("c16.word", self.seed, fi)
            word = WORDS[rng.randrange(len(WORDS))]
            # half of the files get, as their compatibility word, the class name of a rule that emitted one of the file's own
            # diagnostics (measured): a word that is not CheckDefine may not switch anything off, whatever it spells
            emitters = sorted(set(rule for _, rule in (P.alone.get(fid, {}).get("who") or []) if rule and rule != "CheckPreprocessorDefine"))
            if fi % 2 == 0:
                word = emitters[rng.randrange(len(emitters))] if emitters else RULE_WORDS[rng.randrange(len(RULE_WORDS))]
            ref = {"nocol": 1, "fmt": "humanized", "o": 0, "dbg": 0, "R": None, "Rkind": None, "inline": 0}
            for vi, v in enumerate(vectors(word)):
                if fid in self.depth_ids and (v["o"] or v["Rkind"] == "word" or v["fmt"] == "json" or not v["nocol"]):
                    continue      # the depth family is there for the channels and the debug levels: 27 of the 216 vectors
                sc = {"kind": "opt", "fid": fid, "vec": v, "ref": ref, "tree": {f["name"]: "@" + fid},
                      "ops": [{"op": "cli", "argv": argv_of(v, f["name"], f["content"])}]}
                yield idx, sc
                idx += 1

    def multi_scenarios(self):
        P = self.pools
        q = self.tier == "quick"
        n = 400 if q else 8000
        ref = {"nocol": 1, "fmt": "humanized", "o": 0, "dbg": 0, "R": None, "Rkind": None, "inline": 0}
        for i in range(n):
            rng = core.derive_rng("c16.multi", self.seed, i)
            k = rng.randrange(2, 4)
            fids = [self.chosen[rng.randrange(len(self.chosen))] for _ in range(k)]
            if rng.random() < 0.3:
                # two different files of one base name in different directories
                same = [f for f in self.chosen if P.files[f]["name"] == P.files[fids[0]]["name"] and f != fids[0]]
                if same:
                    fids[-1] = same[rng.randrange(len(same))]
            word = WORDS[rng.randrange(len(WORDS))]
            vs_ = [v for v in vectors(word) if not v["inline"]]
            v = vs_[rng.randrange(len(vs_))]
            if rng.random() < 0.5:
                v = dict(v)
                v["R"], v["Rkind"] = "CheckDefine", "CheckDefine"
            tree = {f"m{j}": {P.files[f]["name"]: "@" + f} for j, f in enumerate(fids)}
            argv = argv_of(v, "X", "")[:-1] + [f"m{j}/{P.files[f]['name']}" for j, f in enumerate(fids)]
            yield 5_000_000 + i, {"kind": "multi", "vec": v, "ref": ref, "tree": tree, "ops": [{"op": "cli", "argv": argv}]}

    def the_file(self, sc):
        for k, v in (sc.get("tree") or {}).items():
            if isinstance(v, str) and v.startswith("@"):
                return k, file_of(sc, v[1:])
        return None, None

    def refs_needed(self, sc):
        out = []
        for name, f in self.all_files(sc):
            rsc = {"files": {"r": {"name": name, "content": f["content"]}}, "tree": {name: "@r"},
                   "ops": [{"op": "cli", "argv": argv_of(sc["ref"], name, f["content"])}]}
            out.append((self.ref_key(name, f), rsc))
            d = sc["vec"]["dbg"]
            if d and sc.get("kind") != "multi":
                # the reference vector at the variant's own debug level (across levels the statement excludes fatal/verdict pairs,
                # within one level it does not)
                refd = dict(sc["ref"])
                refd["dbg"] = d
                rsc = {"files": {"r": {"name": name, "content": f["content"]}}, "tree": {name: "@r"},
                       "ops": [{"op": "cli", "argv": argv_of(refd, name, f["content"])}]}
                out.append((self.ref_key(name, f) + (d,), rsc))
        return out

    def ref_key(self, name, f):
        return ("c16ref", name, fsha(f))

    def all_files(self, sc):
        out = []

        def walk(node):
            for k, v in sorted(node.items()):
                if isinstance(v, dict):
                    walk(v)
                elif isinstance(v, str) and v.startswith("@"):
                    out.append((k, file_of(sc, v[1:])))
        walk(sc.get("tree") or {})
        return out

    def judge(self, sc, res, refs):
        if not res["ops"]:
            return []
        o_var = res["ops"][0]
        v = sc["vec"]
        if o_var.get("end") == "invalid-scenario":
            return []
        if sc.get("kind") == "multi":
            return self.judge_multi(sc, o_var, refs)
        name, f = self.the_file(sc)
        if f is None:
            return []
        rr = refs[self.ref_key(name, f)]
        if rr.get("killed"):
            return []
        o_ref = rr["ops"][0]
        a = file_result(o_ref)
        b = file_result(o_var)
        argv = sc["ops"][0]["argv"]
        vs = []
        # an internal error / hang under a variant but not under the reference is a change of findings too
        if a is not None and b is None and o_var.get("end") in ("internal", "hang"):
            if not (v["dbg"] == 0 and o_var.get("end") == o_ref.get("end")):
                vs.append(Violation(self.prop, "C16.a-same-findings",
                                    f"variant {self.vec_kind(v)} ends {o_var.get('end')} {o_var.get('exc') or ''} where the reference reaches a verdict",
                                    {"site": core.site_key(o_var.get("site")), "file": f["name"], "variant_argv": short_argv(argv)}))
            return vs
        if a is not None and b is None and v["dbg"] == sc["ref"]["dbg"] and o_var.get("end") == "exit":
            # same debug level as the reference, which reaches a verdict: no other option (nor the input channel) may turn the
            # file into a fatally unparsable one. (Across debug levels the statement excludes such pairs.)
            only_channel = [k for k in ("nocol", "fmt", "o", "Rkind", "inline") if v[k] != sc["ref"][k]] == ["inline"]
            vs.append(Violation(self.prop, "C16.c-inline-equals-file" if only_channel else "C16.a-same-findings",
                                "the variant ends with a fatal diagnostic where the reference run reaches a verdict",
                                {"file": f["name"], "variant_argv": short_argv(argv), "stdout_head": strip_ansi(o_var.get("stdout", ""))[:120]}))
            return vs
        if v["dbg"]:
            # same-level comparison: the plain vector at this debug level against the variant at this debug level
            rd = refs.get(self.ref_key(name, f) + (v["dbg"],))
            if rd is not None and not rd.get("killed"):
                o_refd = rd["ops"][0]
                ad = file_result(o_refd)
                others = [k for k in ("nocol", "fmt", "o", "Rkind", "inline") if v[k] != sc["ref"][k]]
                if ad is not None and b is None and o_var.get("end") == "exit" and others:
                    vs.append(Violation(self.prop, "C16.a-same-findings",
                                        f"at debug level {v['dbg']} the plain run reaches a verdict but the variant ends with a fatal diagnostic",
                                        {"file": f["name"], "options_changed": "+".join(others), "variant_argv": short_argv(argv)}))
                    return vs
                if ad is None and b is not None and o_refd.get("end") == "exit" and others:
                    vs.append(Violation(self.prop, "C16.a-same-findings",
                                        f"at debug level {v['dbg']} the plain run ends with a fatal diagnostic but the variant reaches a verdict",
                                        {"file": f["name"], "options_changed": "+".join(others), "variant_argv": short_argv(argv)}))
                    return vs
                if ad is not None and b is not None and a is None:
                    # no level-0 verdict to compare with: compare within the level
                    refd = dict(sc["ref"])
                    refd["dbg"] = v["dbg"]
                    sc_d = dict(sc)
                    sc_d["ref"] = refd
                    return self.compare(sc_d, v, f, ad, b, o_refd, argv, f"(debug level {v['dbg']}) ", o_var)
        if a is None or b is None:
            return vs
        return self.compare(sc, v, f, a, b, o_ref, argv, "", o_var)

    def judge_multi(self, sc, o, refs):
        """Several files in one invocation under one option vector: each file's printed result is held against that
        file's reference result (same oracle as for a single file)."""
        vs = []
        v = sc["vec"]
        if o.get("end") == "internal":
            # the invocation ended in a traceback. If every file of it is answered (verdict or fatal line) when checked
            # alone under the reference vector, a presentation option has taken the findings of the whole run away
            alone_ok = True
            for n, f in self.all_files(sc):
                rr = refs[self.ref_key(n, f)]
                if rr.get("killed") or rr["ops"][0].get("end") not in ("exit", "returned"):
                    alone_ok = False
            if alone_ok:
                vs.append(Violation(self.prop, "C16.c-options-never-end-the-run", f"{o.get('exc')} under {self.vec_kind(v)}: every file of the run is answered alone under the reference options",
                                    {"argv": short_argv(sc["ops"][0]["argv"]), "exc": o.get("excmsg")}))
            return vs
        if o.get("end") != "exit" or not o.get("reports"):
            return vs
        rep = o["reports"][0]
        results = parse_report(rep)
        if results is None:
            return [Violation(self.prop, "C16.a-same-findings", "multi-file report not parseable", {"argv": short_argv(sc["ops"][0]["argv"])})]
        byname = {}
        for nm, r in results:
            byname.setdefault(nm, []).append(r)
        files = self.all_files(sc)
        names = sorted(set(n for n, _ in files))
        for name in names:
            group = [(n, f) for n, f in files if n == name]
            exp = []
            for n, f in group:
                rr = refs[self.ref_key(n, f)]
                if rr.get("killed"):
                    exp = None
                    break
                a = file_result(rr["ops"][0])
                if a is None:
                    exp = None      # the reference reaches no verdict for this file (fatal by default, possibly tolerated under -d):
                    break           # excluded from (a), as the statement says
                exp.append((f, a, rr["ops"][0]))
            if exp is None:
                continue
            got = list(byname.get(name, []))
            if len(got) != len(exp):
                vs.append(Violation(self.prop, "C16.a-same-findings", "multi-file run: a file that reaches a verdict alone is missing from (or repeated in) the report",
                                    {"file": name, "reported": len(got), "expected": len(exp), "argv": short_argv(sc["ops"][0]["argv"]), "options": self.vec_kind(v)}))
                continue
            if len(exp) == 1:
                f, a, o_ref = exp[0]
                vs += self.compare(sc, v, f, a, got[0], o_ref, sc["ops"][0]["argv"], "multi-file run: ", o)
            elif v["Rkind"] != "CheckDefine":
                # several files of one base name: compare as multisets (the report does not say which is which)
                ka = sorted(repr((a[0], a[1])) for f, a, o_ref in exp)
                kb = sorted(repr((b[0], b[1])) for b in got)
                if ka != kb:
                    vs.append(Violation(self.prop, "C16.a-same-findings", "multi-file run: files of one base name are not all reported with their own findings",
                                        {"file": name, "argv": short_argv(sc["ops"][0]["argv"]), "options": self.vec_kind(v)}))
        return vs

    def compare(self, sc, v, f, a, b, o_ref, argv, prefix, o_var=None):
        o_var = o_var or {}
        vs = []

        def V(clause, site, **d):
            d["variant_argv"] = short_argv(argv)
            d["file"] = f["name"]
            return Violation(self.prop, clause, prefix + site, d)
        diff_opts = [k for k in ("nocol", "fmt", "o", "dbg", "Rkind", "inline") if v[k] != sc["ref"][k]]
        if v["Rkind"] == "CheckDefine":
            # (b) diagnostics subset of the reference; removed ones only from the #define-value check, on #define lines
            ra, rb = list(a[1]), list(b[1])
            rem = list(ra)
            extra = []
            for d in rb:
                if d in rem:
                    rem.remove(d)
                else:
                    extra.append(d)
            if extra:
                vs.append(V("C16.b-CheckDefine-removes-only", "-R CheckDefine added or changed diagnostics", extra=extra[:4]))
            who = collections_counter([(code, rule) for code, rule in o_ref.get("who", [])])
            define_codes = set(code for (code, rule) in who if rule == "CheckPreprocessorDefine")
            lines = f["content"].split("\n")
            for d in rem:
                lvl, code, line, col = d
                text = lines[line - 1] if line and 0 < line <= len(lines) else ""
                is_def = text.replace("\\\n", "").lstrip().startswith("#") and text.lstrip()[1:].lstrip().startswith("define")
                if code not in define_codes:
                    vs.append(V("C16.b-CheckDefine-removes-only", f"-R CheckDefine removed {code}, which the #define-value check does not emit",
                                removed=d))
                    break
                if not is_def and not self.in_define_continuation(lines, line):
                    vs.append(V("C16.b-CheckDefine-removes-only", f"-R CheckDefine removed {code} on a line that is not a #define", removed=d,
                                line_text=text[:80]))
                    break
            if a[0] != b[0] and not rem:
                vs.append(V("C16.b-CheckDefine-removes-only", "verdict changed although no diagnostic was removed", ref=a[0], var=b[0]))
            # and it does remove them: under -R CheckDefine the #define-value check emits nothing (measured from which
            # check class called Errors.add in the variant run, so another rule using the same code cannot confuse it)
            still = [code for code, rule in (o_var.get("who") or []) if rule == "CheckPreprocessorDefine"]
            if still:
                vs.append(V("C16.b-CheckDefine-removes-only", "-R CheckDefine left #define-value diagnostics in place", emitted=still[:3]))
        else:
            if a[0] != b[0] or a[1] != b[1]:
                kinds = "+".join(diff_opts)
                missing = [d for d in a[1] if d not in b[1]][:3]
                extra = [d for d in b[1] if d not in a[1]][:3]
                what = "verdict" if a[0] != b[0] and not missing and not extra else \
                       ("order" if not missing and not extra else "diagnostics")
                only_channel = diff_opts == ["inline"]
                vs.append(V("C16.c-inline-equals-file" if only_channel else "C16.a-same-findings",
                            f"{what} differ from the reference run" + (" (input channel only)" if only_channel else ""),
                            options_changed=kinds, ref_verdict=a[0], var_verdict=b[0], missing=missing, extra=extra))
            elif a[2] != b[2]:
                vs.append(V("C16.a-same-findings", "diagnostic texts differ from the reference run", options_changed="+".join(diff_opts)))
        return vs

    def on_define_line(self, lines, line):
        text = lines[line - 1] if line and 0 < line <= len(lines) else ""
        t = text.lstrip()
        return (t.startswith("#") and t[1:].lstrip().startswith("define")) or self.in_define_continuation(lines, line)

    @staticmethod
    def in_define_continuation(lines, line):
        """True when `line` continues a #define through backslash-newline splices."""
        k = line - 1
        while k > 0 and lines[k - 1].rstrip().endswith("\\"):
            k -= 1
            t = lines[k].lstrip()
            if t.startswith("#") and t[1:].lstrip().startswith("define"):
                return True
        return False

    @staticmethod
    def vec_kind(v):
        parts = []
        if not v["nocol"]:
            parts.append("colors")
        if v["fmt"] == "json":
            parts.append("json")
        if v["o"]:
            parts.append("-o")
        if v["dbg"]:
            parts.append("-" + "d" * v["dbg"])
        if v["Rkind"]:
            parts.append("-R " + v["Rkind"])
        if v["inline"]:
            parts.append("inline")
        return "[" + " ".join(parts) + "]"

    def observe(self, idx, sc, r):
        v = sc["vec"]
        if sc.get("kind") == "multi":
            self.fire("multi_file")
            if v["Rkind"] == "CheckDefine":
                self.fire("R_CheckDefine")
            self.distinct.add(("multi", v["nocol"], v["fmt"], v["o"], v["dbg"], v["Rkind"], len(sc["tree"])))
            return
        self.fire("options")
        if v["inline"]:
            self.fire("channel_inline")
        if v["Rkind"] == "CheckDefine":
            self.fire("R_CheckDefine")
        if v["Rkind"] == "word":
            self.fire("R_word")
        if v["dbg"]:
            self.fire("debug")
        if v["fmt"] == "json":
            self.fire("format_json")
        if v["o"]:
            self.fire("only_filename")
        if v["nocol"]:
            self.fire("no_colors")
        name, f = self.the_file(sc)
        rr = self.refcache.get(("c16ref", name, fsha(f))) or {}
        o_ref = (rr.get("ops") or [{}])[0]
        a = file_result(o_ref)
        b = file_result(r["ops"][0])
        cls = self.pools.cls.get(sc["fid"], "?")
        if a is not None and b is not None:
            self.comparable += 1
            self.distinct.add((v["nocol"], v["fmt"], v["o"], v["dbg"], v["Rkind"], v["inline"], cls))
            if v["Rkind"] == "CheckDefine" and len(b[1]) < len(a[1]):
                self.count("checkdefine", "removed_something")
        else:
            self.count("not_comparable", f"ref={'verdict' if a else o_ref.get('end')} var={'verdict' if b else r['ops'][0].get('end')}")
        if len(self.samples) < 5 and idx % 1733 == 29:
            self.samples.append({"run": idx, "file": self.pools.files[sc["fid"]]["name"], "class": cls, "vector": v,
                                 "argv": [x if len(x) < 50 else x[:47] + "..." for x in sc["ops"][0]["argv"]]})

    def run(self):
        self.comparable = 0
        self.prepare()
        self.run_bulk(self.scenarios(), chunk=8)
        self.run_bulk(self.multi_scenarios(), chunk=8)
        self.recheck_killed()
        self.fidelity()
        self.stats["comparable_pairs"] = self.comparable

    def coverage(self):
        return {"option_vectors_per_file": 216, "files": len(self.chosen), "exhaustive_part": "option lattice exhaustive per file",
                "fidelity_subprocess_runs": getattr(self, "fidelity_runs", 0)}

    def fidelity(self):
        from ..fidelity import fidelity_sample
        P = self.pools
        scs = []
        rng = core.derive_rng("c16.fid", self.seed, 0)
        # not the #if-depth family: where it flips depends on the depth of the caller's stack (absolute recursion limit inside the
        # #if parser), and the simulated process calls main() from a deeper stack than `python -m norminette` does
        pickable = [f for f in self.chosen if f not in self.depth_ids]
        for i in range(5):
            fid = pickable[rng.randrange(len(pickable))]
            f = P.files[fid]
            v = vectors("Whatever")[rng.randrange(216)]
            if v["dbg"] == 2:
                v["dbg"] = 1
            scs.append({"tree": {f["name"]: "@" + fid}, "ops": [{"op": "cli", "argv": argv_of(v, f["name"], f["content"])}]})
        bad = fidelity_sample(self, scs)
        self.fidelity_runs = len(scs)
        if bad:
            raise RuntimeError(f"fidelity sample disagrees with the real subprocess: {bad[:1]}")

    def shrinkers(self, sc, target):
        if sc.get("kind") == "multi":
            from ..framework import generic_shrinkers
            yield from generic_shrinkers(sc)
            return
        # options are shrunk by moving the variant vector toward the reference, one coordinate at a time
        v = sc["vec"]
        name = None
        for k, t in (sc.get("tree") or {}).items():
            if isinstance(t, str) and t.startswith("@"):
                name = k
        if name is None:
            return
        f = file_of(sc, sc["tree"][name][1:])
        for k in ("nocol", "fmt", "o", "dbg", "Rkind", "inline"):
            if v[k] != sc["ref"][k]:
                c = copy.deepcopy(sc)
                c["vec"][k] = sc["ref"][k]
                if k == "Rkind":
                    c["vec"]["R"] = None
                c["ops"][0]["argv"] = argv_of(c["vec"], name, f["content"])
                yield c

    def refresh(self, sc):
        """Recompute both argv from the (possibly shrunk) file content: inline content must follow the file."""
        if sc.get("kind") == "multi":
            return sc
        name = None
        for k, t in (sc.get("tree") or {}).items():
            if isinstance(t, str) and t.startswith("@"):
                name = k
        if name is None:
            return sc
        f = file_of(sc, sc["tree"][name][1:])
        sc["ops"][0]["argv"] = argv_of(sc["vec"], name, f["content"])
        return sc


def collections_counter(items):
    import collections
    return collections.Counter(items)
