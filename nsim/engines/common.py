"""Helpers shared by the engines."""
import os
import re

from .. import core, pool as poolmod
from ..faults import materialise

ANSI = re.compile(r"\x1b\[[0-9;]*m")


def strip_ansi(s):
    return ANSI.sub("", s)


def file_of(sc, fid):
    files = sc.get("files") or {}
    if fid in files:
        f = files[fid]
        if "base" in f:
            merged = dict(poolmod.SHARED["files"])
            merged.update(files)
            return materialise(fid, merged)
        return f
    merged = poolmod.SHARED["files"]
    return materialise(fid, merged)


def fsha(f):
    if "bytes_b64" in f:
        return "b:" + core.sha(f["bytes_b64"])
    return core.sha(f["content"])


def ref_api(sc, fid, debug=0, R=None):
    f = file_of(sc, fid)
    key = ("api", f["name"], fsha(f), debug, tuple(R) if R else None)
    rsc = {"files": {"r": {k: v for k, v in f.items() if k in ("name", "content", "bytes_b64")}},
           "ops": [{"op": "api", "file": "r", "debug": debug, "R": R}]}
    return key, rsc


def ref_cli(sc, fid, opts=()):
    f = file_of(sc, fid)
    key = ("cli", f["name"], fsha(f), tuple(opts))
    rsc = {"files": {"r": {k: v for k, v in f.items() if k in ("name", "content", "bytes_b64")}},
           "tree": {f["name"]: "@r"},
           "ops": [{"op": "cli", "argv": list(opts) + [f["name"]]}]}
    return key, rsc


def tree_files(tree, prefix=""):
    """[(relative path, fid)] of the regular files of a model tree that reference pool files."""
    out = []
    for k, v in sorted(tree.items()):
        p = f"{prefix}{k}"
        if isinstance(v, dict):
            out += tree_files(v, p + "/")
        elif isinstance(v, str) and v.startswith("@"):
            out.append((p, v[1:]))
    return out


def norm_rel(path, cwd="."):
    """Model-relative normalised path of something norminette printed/was given."""
    if path.startswith("<root>"):
        p = path[len("<root>"):].lstrip("/")
    elif os.path.isabs(path):
        return None
    else:
        p = os.path.join(cwd, path)
    p = os.path.normpath(p)
    return "" if p == "." else p


FATAL_RE = re.compile(r"^(?P<path>.*): Error!\n\t(?P<msg>.*)\Z", re.S)


def cli_sig(o):
    """Comparable outcome of a single-file CLI invocation (reference runs)."""
    end = o.get("end")
    if end == "internal":
        return ("internal", o.get("exc"), core.site_key(o.get("site")))
    if end == "hang":
        return ("hang", core.site_key(o.get("site"), with_line=False))
    if o.get("reports") and o["reports"][0]["files"]:
        f = o["reports"][0]["files"]
        if len(f) == 1:
            d = f[0]["diags"]
            if d is None:
                return ("internal", f[0]["status"], "formatter")
            return ("verdict", tuple((x[0], x[1], x[2], tuple(tuple(h) for h in x[3])) for x in d))
        return ("report", len(f))
    out = strip_ansi(o.get("stdout", ""))
    m = None
    for seg in [out]:
        idx = seg.find(": Error!\n\t")
        if idx >= 0:
            start = seg.rfind("\n", 0, idx) + 1
            m = seg[idx + len(": Error!\n\t"):]
            return ("fatal", m.rstrip("\n"))
    return ("other", o.get("exit"), core.sha(out))


def report_blocks(o):
    """The printed report split per file: [(basename, text of that file's block)] - what a user actually reads. For the JSON
    format the block is the canonical dump of that file's entry without its path."""
    import json as _json
    out = []
    for rep in o.get("reports") or []:
        text = strip_ansi(rep.get("text") or "")
        if rep.get("format", "").startswith("JSON"):
            try:
                doc = _json.loads(text)
                for jf in doc["files"]:
                    d = dict(jf)
                    name = str(d.pop("path", "")).rsplit("/", 1)[-1]
                    out.append((name, _json.dumps(d, sort_keys=True)))
            except Exception:  # noqa
                out.append(("?", text))
            continue
        cur = None
        for ln in text.split("\n"):
            if ln.endswith(": OK!") or ln.endswith(": Error!"):
                cur = [ln.rsplit(": ", 1)[0], ln + "\n"]
                out.append(cur)
            elif cur is not None and ln:
                cur[1] += ln + "\n"
    return [(a, b) for a, b in out]
