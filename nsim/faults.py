"""Content faults: what a short, torn or corrupted read delivers (DESIGN 3.7).

A derived file is {"name":…, "base": fid, "splices": [[a, b, text]…]}: the base content with
each character range [a, b) replaced by text (ranges refer to the base, non-overlapping).
Every fault kind of the catalogue that damages content resolves to splices at generation
time, so the scenario is explicit and execution draws nothing."""
import base64


def apply_splices(content, splices):
    out = content
    for a, b, text in sorted(splices, key=lambda s: (s[0], s[1]), reverse=True):
        out = out[:a] + text + out[b:]
    return out


def materialise(fid, files, _depth=0):
    f = files[fid]
    if "base" not in f:
        return f
    if _depth > 8:
        raise ValueError("derivation too deep")
    base = materialise(f["base"], files, _depth + 1)
    if "bytes_b64" in base:
        raise ValueError("cannot splice a bytes file")
    content = apply_splices(base["content"], f.get("splices") or [])
    out = {k: v for k, v in f.items() if k not in ("base", "splices")}
    out["content"] = content
    out.setdefault("origin", f"{base.get('origin', f['base'])}+{f.get('fault_desc', 'splice')}")
    if f.get("append_bytes_b64"):
        data = content.encode("utf-8", "surrogateescape")
        ins = f.get("bytes_at", len(data))
        data = data[:ins] + base64.b64decode(f["append_bytes_b64"]) + data[ins:]
        out["bytes_b64"] = base64.b64encode(data).decode()
    return out


def token_offsets(ns, name, content):
    """Character spans of the tokens of `content` as the real lexer cuts them:
    [(start, end, type)…]. Uses the lexer's private cursor (read-only)."""
    f = ns.File(name, content)
    lx = ns.Lexer(f)
    spans = []
    while True:
        a = lx._Lexer__pos
        try:
            t = lx.get_next_token()
        except BaseException:  # noqa - damaged base programs are not our problem here
            break
        if not t:
            break
        spans.append((a, lx._Lexer__pos, t.type))
    return spans


def statement_boundaries(content):
    """Character offsets of line starts (candidate statement boundaries), plus end of file."""
    offs = [0]
    for i, ch in enumerate(content):
        if ch == "\n":
            offs.append(i + 1)
    if offs[-1] != len(content):
        offs.append(len(content))
    return offs
