"""Fidelity sample: the same CLI scenario through a real `python -m norminette` subprocess (no
seams) must give the same stdout and exit status as the in-process simulated run (DESIGN 3.3)."""
import os
import shutil
import subprocess
import sys
import tempfile

from . import core, pool as poolmod


def real_run(sc):
    sc = poolmod.resolve_files(sc)
    ex = core.Executor(sc)
    ex.make_tree(sc["tree"])
    root = ex.scratch
    outs = []
    try:
        for op in sc["ops"]:
            env = dict(os.environ)
            env["PYTHONPATH"] = core.REPO
            env["PYTHONDONTWRITEBYTECODE"] = "1"
            env["PYTHONHASHSEED"] = "0"
            argv = [a.replace("<root>", root) for a in op["argv"]]
            try:
                p = subprocess.run([sys.executable, "-m", "norminette"] + argv, cwd=os.path.join(root, op.get("cwd", ".")),
                                   capture_output=True, env=env, timeout=60)
                outs.append({"exit": p.returncode, "stdout": p.stdout.decode("utf-8", "replace").replace(root, "<root>"),
                             "stderr": p.stderr.decode("utf-8", "replace").replace(root, "<root>")})
            except subprocess.TimeoutExpired:
                outs.append({"exit": "timeout", "stdout": "", "stderr": ""})
    finally:
        shutil.rmtree(root, ignore_errors=True)
    return outs


def fidelity_sample(engine, scs):
    """Returns the list of disagreements (empty = faithful)."""
    sims = engine.pool.map(scs)
    bad = []
    for sc, sim in zip(scs, sims):
        if sim.get("killed"):
            continue
        reals = real_run(sc)
        for op, so, ro in zip(sc["ops"], sim["ops"], reals):
            if so.get("end") == "hang" or ro["exit"] == "timeout":
                if not (so.get("end") == "hang" and ro["exit"] == "timeout"):
                    bad.append({"argv": op["argv"], "sim": so.get("end"), "real": ro["exit"]})
                continue
            if so.get("end") == "internal":
                # a real process prints a traceback and exits 1
                if ro["exit"] != 1 or "Traceback" not in ro["stderr"]:
                    bad.append({"argv": op["argv"], "sim": "internal", "real": ro})
                continue
            sim_exit = so.get("exit")
            sim_exit = 0 if sim_exit is None else sim_exit
            if sim_exit != ro["exit"] or so.get("stdout") != ro["stdout"]:
                bad.append({"argv": op["argv"], "sim": {"exit": so.get("exit"), "stdout": so.get("stdout")[:300]},
                            "real": {"exit": ro["exit"], "stdout": ro["stdout"][:300], "stderr": ro["stderr"][-300:]}})
    return bad
