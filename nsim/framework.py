"""Shared machinery of the checks: outcome signatures, violations, reference cache,
delta-debugging minimiser, replay files, known findings, evidence files, exit codes."""
import copy
import hashlib
import json
import os
import subprocess
import sys
import time

from . import core, pool as poolmod

VERIF = os.path.dirname(os.path.dirname(os.path.abspath(__file__)))
REPLAYS = os.path.join(VERIF, "replays")
EVIDENCE = os.path.join(VERIF, "evidence")
KNOWN = os.path.join(VERIF, "known_findings.json")
MAX_REPORTED_SITES = 12
NO_ANSWER_SITE = "no answer: child killed at the wall limit (twice in the bulk run), the in-process backstop never fired"


# ---------------------------------------------------------------------------------------
# outcomes
# ---------------------------------------------------------------------------------------
def classify(o):
    """Measured class of a single-file analysis outcome (api op result)."""
    oc = o.get("outcome")
    if oc != "verdict":
        return oc
    d = o.get("diags")
    if d is None:
        return "internal"
    if not d:
        return "clean"
    return "erroneous" if any(x[0] != "Notice" for x in d) else "notice"


def diag_key(d):
    return (d[0], d[1], d[2], tuple(tuple(h) for h in d[3]))


def api_sig(o):
    """What C06 compares: terminal outcome + diagnostics (level, code, text, positions, order)."""
    oc = o.get("outcome")
    if oc == "verdict":
        if o.get("diags") is None:
            return ("internal", o.get("diags_exc"), core.site_key(o.get("diags_site")))
        return ("verdict", tuple(diag_key(d) for d in o["diags"]))
    if oc == "fatal":
        return ("fatal", o.get("msg"))
    if oc == "internal":
        return ("internal", o.get("exc"), core.site_key(o.get("site")))
    if oc == "hang":
        return ("hang", core.site_key(o.get("site"), with_line=False))
    return (oc,)


def short_sig(sig):
    if sig[0] == "verdict":
        return f"verdict[{len(sig[1])} diags: {','.join(d[1] for d in sig[1][:4])}{'…' if len(sig[1]) > 4 else ''}]"
    return " ".join(str(x) for x in sig)[:200]


class Violation:
    __slots__ = ("prop", "clause", "site", "detail", "idx", "scenario")

    def __init__(self, prop, clause, site, detail=None):
        self.prop = prop
        self.clause = clause
        self.site = site
        self.detail = detail or {}
        self.idx = None
        self.scenario = None

    @property
    def key(self):
        return (self.prop, self.clause, self.site)

    def __repr__(self):
        return f"<Violation {self.prop} {self.clause} {self.site}>"


# ---------------------------------------------------------------------------------------
# known findings (read-only at run time)
# ---------------------------------------------------------------------------------------
def load_known():
    try:
        with open(KNOWN) as fh:
            data = json.load(fh)
    except FileNotFoundError:
        return []
    return data.get("findings", [])


def known_match(known, v):
    for k in known:
        if k.get("status", "open") != "open":
            continue
        if k["property"] == v.prop and k["clause"] == v.clause and k["site"] == v.site:
            return k
    return None


# ---------------------------------------------------------------------------------------
# engine base
# ---------------------------------------------------------------------------------------
class Engine:
    prop = "C00"
    name = "engine"
    level = "exploration"

    def __init__(self, tier="quick", seed=0, pool=None):
        self.tier = tier
        self.seed = seed
        self.pool = pool
        self.refcache = {}
        self.evaluations = 0
        self.found = {}          # key -> Violation with smallest idx
        self.found_count = {}
        self.stats = {}
        self.fired = {}
        self.samples = []
        self.distinct = set()
        self.max_ratio = 0.0
        self.killed = []
        self.digests = {}
        self.det_sample = []
        self._seen = 0
        self.sim_ticks_total = 0

    # -- to override ----------------------------------------------------------------------
    def refs_needed(self, sc):
        return []

    def judge(self, sc, res, refs):
        return []

    def scenarios(self):
        return iter(())

    def shrinkers(self, sc, target):
        return generic_shrinkers(sc)

    def refresh(self, sc):
        """Hook: re-derive dependent parts of a (shrunk) scenario before it is evaluated."""
        return sc

    # -- helpers ------------------------------------------------------------------------
    def count(self, table, key, n=1):
        t = self.stats.setdefault(table, {})
        t[key] = t.get(key, 0) + n

    def fire(self, kind, n=1):
        self.fired[kind] = self.fired.get(kind, 0) + n

    def ensure_refs(self, scs):
        need = {}
        for sc in scs:
            for k, rsc in self.refs_needed(sc):
                if k not in self.refcache and k not in need:
                    need[k] = rsc
        if need:
            keys = list(need)
            rs = self.pool.map([need[k] for k in keys])
            for k, r in zip(keys, rs):
                self.refcache[k] = r

    def evaluate_many(self, scs, tolerant=False):
        """Self-contained evaluation: references are (re)computed for exactly these scenarios.
        tolerant (minimisation only): a candidate the oracle cannot interpret counts as 'does not reproduce'."""
        scs = [self.refresh(sc) for sc in scs]
        self.ensure_refs(scs)
        # scenarios that belong to another interpreter configuration (seam S7: hash seed, optimisation level) are executed in a
        # shard interpreter started with it; their references stay those of this (baseline) interpreter
        rs = [None] * len(scs)
        plain = [i for i, sc in enumerate(scs) if not interp_variant(sc)]
        for i, r in zip(plain, self.pool.map([scs[i] for i in plain])):
            rs[i] = r
        for i, sc in enumerate(scs):
            if rs[i] is None:
                rs[i] = run_in_shard([sc], interp_variant(sc))[0]
        out = []
        for sc, r in zip(scs, rs):
            if r.get("killed"):
                out.append([Violation(self.prop, "liveness.no-answer", NO_ANSWER_SITE)])
            else:
                try:
                    out.append(self.judge(sc, r, self.refcache))
                except Exception:
                    if not tolerant:
                        raise
                    out.append([])
        return out, rs

    def record(self, idx, sc, vs):
        for v in vs:
            self.found_count[v.key] = self.found_count.get(v.key, 0) + 1
            cur = self.found.get(v.key)
            if cur is None or idx < cur.idx:
                v.idx = idx
                v.scenario = sc
                self.found[v.key] = v

    def run_bulk(self, scenario_iter, chunk=8, prefetch=None):
        """Run all scenarios, judging each result as it arrives."""
        if prefetch:
            self.ensure_refs(prefetch)

        sub = int(os.environ.get("NSIM_SUBSAMPLE", "0") or 0)

        def gen():
            batch = []
            for item in scenario_iter:
                if sub and item[0] % sub:
                    continue
                self._seen += 1
                if self._seen % 131 == 1 and len(self.det_sample) < 30:
                    self.det_sample.append(item)      # re-executed at the end: digests must be identical
                batch.append(item)
                if len(batch) >= 256:
                    self.ensure_refs([s for _, s in batch])
                    yield from batch
                    batch = []
            if batch:
                self.ensure_refs([s for _, s in batch])
                yield from batch

        def on(idx, sc, r):
            self.evaluations += 1
            if r.get("killed"):
                self.killed.append((idx, sc))
                return
            self.digests[idx] = r.get("digest")
            for o in r.get("ops", []):
                mr = o.get("max_ratio") or 0
                if mr > self.max_ratio:
                    self.max_ratio = mr
                self.sim_ticks_total += (o.get("ticks") or 0) + (o.get("lex_ticks") or 0)
            vs = self.judge(sc, r, self.refcache)
            self.observe(idx, sc, r)
            if vs:
                self.record(idx, sc, vs)
        self.pool.stream(gen(), on, chunk=chunk)

    def observe(self, idx, sc, r):
        """coverage bookkeeping hook"""

    def determinism_check(self):
        """Same-scenario-twice self-test on a sample of this very run (DESIGN 3.9): a digest that differs between two
        executions of one explicit scenario is a simulator bug, never a violation."""
        items = [it for it in self.det_sample if it[0] in self.digests]
        if not items:
            return 0, 0
        rs = self.pool.map([sc for _, sc in items])
        bad = [idx for (idx, _), r in zip(items, rs) if not r.get("killed") and r.get("digest") != self.digests[idx]]
        if bad:
            raise poolmod.HarnessError(f"determinism self-test failed: runs {bad[:5]} gave another event-log digest when re-executed")
        return len(items), 0

    def confirm_hangs(self, clause="liveness"):
        """The no-progress budget (1000 x (tokens + 50) ticks) assumes at most linear work per statement; some checks are quadratic
        in the length of one statement. Before a tick-deadline expiry counts as a hang the run is repeated with a 50 times larger
        budget: if it then ends, it was slow, not stuck (counted as such in the evidence), and the violation is dropped."""
        import copy
        keys = [k for k, v in self.found.items() if clause in k[1] and (v.detail or {}).get("hang_kind") in ("ticks", "lexticks")]
        if not keys:
            return
        scs = []
        for k in keys:
            sc = copy.deepcopy(self.found[k].scenario)
            sc["tick_mult"] = 50
            scs.append(sc)
        rs = self.pool.map(scs, chunk=1)
        for k, sc, r in zip(keys, scs, rs):
            still = False
            if r.get("killed"):
                still = True
            else:
                for o in r.get("ops", []):
                    if o.get("outcome") == "hang" or o.get("end") == "hang":
                        still = True
            if still:
                self.found[k].scenario = sc        # the confirmed scenario (large budget) is what gets minimised and replayed
            else:
                self.count("slow_not_hung", k[2][:80])
                del self.found[k]
                self.found_count.pop(k, None)

    def recheck_killed(self):
        """A child that had to be killed (no answer, not even from the in-child backstop: a loop inside C code or a
        blocked call) only counts if it happens again when re-run with few competitors."""
        out = []
        todo = sorted(self.killed, key=lambda x: x[0])[:4]
        if not todo:
            return out
        rs = self.pool.map([sc for _, sc in todo], chunk=1)
        for (idx, sc), r in zip(todo, rs):
            if r.get("killed"):
                v = Violation(self.prop, "liveness.no-answer", NO_ANSWER_SITE,
                              {"note": "the run neither finished nor reached the in-process backstop (loop inside C code, e.g. regex backtracking)"})
                self.record(idx, sc, [v])
                out.append(idx)
        self.stats["killed_runs"] = len(self.killed)
        return out


# ---------------------------------------------------------------------------------------
# minimisation (delta debugging over the explicit scenario)
# ---------------------------------------------------------------------------------------
def resolved(sc):
    """Scenario with every referenced file inlined as explicit content (self-contained)."""
    sc = poolmod.resolve_files(sc)
    used = set()
    for op in sc.get("ops", []):
        if "file" in op:
            used.add(op["file"])
        for f in op.get("faults") or []:
            if "file" in f:
                used.add(f["file"])

    def walk(node):
        for v in node.values():
            if isinstance(v, dict):
                walk(v)
            elif isinstance(v, str) and v.startswith("@"):
                used.add(v[1:])
    if sc.get("tree"):
        walk(sc["tree"])
    used |= set((sc.get("named") or {}).values())      # files an oracle refers to by name only (what a path *should* read as)
    sc["files"] = {k: {kk: vv for kk, vv in v.items() if kk in ("name", "content", "bytes_b64", "origin", "class")}
                   for k, v in sc["files"].items() if k in used}
    return copy.deepcopy(sc)


def generic_shrinkers(sc):
    """Yield smaller scenarios: drop ops, drop faults, simplify permutations, shrink file contents."""
    ops = sc.get("ops", [])
    # drop ops (never the last one first: the last op is usually the victim)
    if len(ops) > 1:
        for i in range(len(ops)):
            c = copy.deepcopy(sc)
            del c["ops"][i]
            yield c
    for i, op in enumerate(ops):
        for fld in ("faults", "glob_perms", "emit_perms", "git"):
            if op.get(fld):
                c = copy.deepcopy(sc)
                c["ops"][i][fld] = None
                yield c
        if op.get("op") == "cli" and len(op.get("argv", [])) > 1:
            for j in range(len(op["argv"])):
                c = copy.deepcopy(sc)
                del c["ops"][i]["argv"][j]
                yield c
    b = sc.get("boot") or {}
    if b.get("listing") is not None:
        c = copy.deepcopy(sc)
        c["boot"]["listing"] = None
        yield c
    # tree entries
    if sc.get("tree"):
        for path in tree_paths(sc["tree"]):
            c = copy.deepcopy(sc)
            tree_delete(c["tree"], path)
            yield c


def tree_paths(tree, prefix=()):
    out = []
    for k, v in tree.items():
        out.append(prefix + (k,))
        if isinstance(v, dict):
            out += tree_paths(v, prefix + (k,))
    return out


def tree_delete(tree, path):
    node = tree
    for p in path[:-1]:
        node = node[p]
    node.pop(path[-1], None)


def content_shrinkers(sc, fid):
    """ddmin-style candidates for one file's content: drop line chunks, then char chunks."""
    content = sc["files"][fid].get("content")
    if content is None:
        return
    lines = content.split("\n")
    n = len(lines)
    size = max(n // 2, 1)
    while size >= 1:
        for start in range(0, n, size):
            new = lines[:start] + lines[start + size:]
            if len(new) < n:
                c = copy.deepcopy(sc)
                c["files"][fid]["content"] = "\n".join(new)
                yield c
        if size == 1:
            break
        size //= 2


def char_shrinkers(sc, fid):
    content = sc["files"][fid].get("content")
    if content is None:
        return
    n = len(content)
    size = max(n // 2, 1)
    while size >= 1:
        for start in range(0, n, size):
            new = content[:start] + content[start + size:]
            if len(new) < n:
                c = copy.deepcopy(sc)
                c["files"][fid]["content"] = new
                yield c
        if size == 1:
            break
        size //= 2


def minimise(engine, sc, target_key, budget_s=60.0, log=None):
    """Greedy parallel delta debugging: evaluate a batch of candidates, take the first (in
    generation order - deterministic) that still shows `target_key`, repeat to fixpoint."""
    t0 = time.time()
    cur = resolved(sc)
    tested = 0

    def still(cands):
        nonlocal tested
        vss, _ = engine.evaluate_many(cands, tolerant=True)
        tested += len(cands)
        for c, vs in zip(cands, vss):
            if any(v.key == target_key for v in vs):
                return c
        return None

    def sweep(gen_fn, batch=32):
        nonlocal cur
        progress_any = False
        while time.time() - t0 < budget_s:
            cands = []
            got = None
            for c in gen_fn(cur):
                cands.append(c)
                if len(cands) >= batch:
                    got = still(cands)
                    cands = []
                    if got is not None or time.time() - t0 > budget_s:
                        break
            if got is None and cands:
                got = still(cands)
            if got is None:
                break
            cur = got
            progress_any = True
        return progress_any

    changed = True
    rounds = 0
    while changed and time.time() - t0 < budget_s and rounds < 6:
        rounds += 1
        changed = sweep(lambda s: engine.shrinkers(s, target_key))
        for fid in sorted(cur.get("files", {})):
            if sweep(lambda s, fid=fid: content_shrinkers(s, fid)):
                changed = True
        for fid in sorted(cur.get("files", {})):
            if len(cur["files"][fid].get("content") or "") <= 4000:
                if sweep(lambda s, fid=fid: char_shrinkers(s, fid), batch=48):
                    changed = True
    # drop unused files
    cur = resolved(cur)
    if log:
        log(f"minimised in {time.time() - t0:.1f}s, {tested} candidate runs")
    return cur


# ---------------------------------------------------------------------------------------
# replay files
# ---------------------------------------------------------------------------------------
def tree_id():
    try:
        rev = subprocess.run(["git", "-C", core.REPO, "rev-parse", "HEAD"], capture_output=True, text=True).stdout.strip()
        diff = subprocess.run(["git", "-C", core.REPO, "diff", "HEAD", "--", "norminette"], capture_output=True).stdout
        return f"{rev[:12]}+{hashlib.sha256(diff).hexdigest()[:8]}"
    except Exception:
        return "unknown"


def write_replay(engine, v, sc, seed, n):
    os.makedirs(REPLAYS, exist_ok=True)
    doc = dict(sc)
    doc["nsim"] = 1
    doc["property"] = v.prop
    doc["engine"] = engine.name
    doc["seed"] = seed
    doc["run"] = v.idx
    doc["tree_id"] = tree_id()
    doc["python"] = sys.version.split()[0]
    doc["violation"] = {"clause": v.clause, "site": v.site, "detail": v.detail}
    path = os.path.join(REPLAYS, f"{v.prop}-{seed}-{v.idx}-{n}.json")
    with open(path, "w") as fh:
        json.dump(doc, fh, indent=1, sort_keys=True, default=str)
    return path


def interp_variant(sc):
    b = sc.get("boot") or {}
    v = {}
    if b.get("hashseed") not in (None, 0, "0"):
        v["PYTHONHASHSEED"] = str(b["hashseed"])
    if b.get("optimize"):
        v["PYTHONOPTIMIZE"] = str(b["optimize"])
    return v


def run_in_shard(scs, envvars, workers=2):
    env = dict(os.environ)
    env["PYTHONHASHSEED"] = "0"
    env.update(envvars)
    env["NSIM_WORKERS"] = str(workers)
    sent = []
    for sc in scs:
        sc2 = dict(sc)
        b = {k: v for k, v in (sc.get("boot") or {}).items() if k not in ("hashseed", "optimize")}
        sc2.pop("boot", None)
        if b:
            sc2["boot"] = b
        sent.append(sc2)
    scs = sent
    p = subprocess.run([sys.executable, "-c", "import sys; sys.path.insert(0, %r); from nsim import shard; shard.main()" % VERIF],
                       input=json.dumps([resolved(sc) for sc in scs]), capture_output=True, text=True, env=env, timeout=900)
    if p.returncode != 0:
        raise poolmod.HarnessError(f"shard interpreter failed: {p.stderr[-1500:]}")
    return json.loads(p.stdout)


def replay_in_fresh_interpreter(prop, path):
    """Re-execute a replay file in a fresh interpreter; True iff it reproduces its triple."""
    env = dict(os.environ)
    env["PYTHONHASHSEED"] = "0"
    env["NSIM_WORKERS"] = "2"
    p = subprocess.run([sys.executable, os.path.join(VERIF, "check"), prop, "--replay", path],
                       capture_output=True, text=True, env=env, timeout=600)
    return any(ln.startswith("REPRODUCED ") for ln in p.stdout.split("\n")), p.stdout + p.stderr


# ---------------------------------------------------------------------------------------
# evidence
# ---------------------------------------------------------------------------------------
def write_evidence(prop, doc):
    os.makedirs(EVIDENCE, exist_ok=True)
    path = os.path.join(EVIDENCE, f"{prop}.json")
    tmp = path + ".tmp"
    with open(tmp, "w") as fh:
        json.dump(doc, fh, indent=1, sort_keys=True, default=str)
    os.replace(tmp, path)
    return path


# ---------------------------------------------------------------------------------------
# report: minimise, replay, classify against known findings; returns the exit code
# ---------------------------------------------------------------------------------------
def conclude(engine, seed, out=print, minimise_budget=45.0):
    known = load_known()
    keys = sorted(engine.found, key=lambda k: (k[1], str(k[2])))
    unlisted = []
    known_hit = []
    reported = 0
    reproduced = 0
    harness_problem = False
    for key in keys:
        v = engine.found[key]
        k = known_match(known, v)
        if k is not None:
            known_hit.append(k)
            out(f"KNOWN-FINDING: property={v.prop} {k.get('what', v.clause + ' ' + str(v.site))}")
            continue
        unlisted.append(v)
    for n, v in enumerate(unlisted):
        if reported >= MAX_REPORTED_SITES:
            out(f"(… {len(unlisted) - reported} more distinct unlisted violation sites not minimised)")
            break
        reported += 1
        try:
            small = minimise(engine, v.scenario, v.key, budget_s=minimise_budget)
        except poolmod.HarnessError as e:
            out(f"HARNESS-ERROR while minimising {v.key}: {e}")
            small = resolved(v.scenario)
        path = write_replay(engine, v, small, seed, n)
        ok, log = replay_in_fresh_interpreter(v.prop, path)
        if not ok:
            path2 = write_replay(engine, v, resolved(v.scenario), seed, f"{n}-full")
            ok2, log2 = replay_in_fresh_interpreter(v.prop, path2)
            if ok2:
                path = path2
            else:
                out(f"HARNESS-ERROR: violation {v.key} did not reproduce from its replay file {path}")
                out(log2[-2000:])
                harness_problem = True
                continue
        reproduced += 1
        out(f"VIOLATION property={v.prop} replay={path}")
        out(f"  clause={v.clause} site={v.site} occurrences={engine.found_count.get(v.key)} first_run={v.idx}")
        if v.detail:
            out("  detail=" + json.dumps(v.detail, default=str)[:600])
    code = 0
    if reproduced:
        code = 1
    elif harness_problem:
        code = 2
    return code, len(unlisted), known_hit
