"""Worker pool: each worker is a booted *zygote*; every simulated run executes in a child
forked from it (DESIGN 3.2). Results are keyed by run index, so nothing depends on which
worker ran what, nor on the worker count."""
import concurrent.futures as cf
import faulthandler
import multiprocessing as mp
import os
import pickle
import select
import signal
import sys
import time
import traceback

from . import core

SHARED = {"files": {}}      # set in the parent *before* the pool is created; inherited by fork
WALL_S = 10.0
WALL_CAP = 30.0


class HarnessError(Exception):
    pass


def resolve_files(scenario):
    """Inline SHARED files referenced by a scenario (children see them through fork)."""
    files = dict(scenario.get("files") or {})
    need = set()
    for op in scenario.get("ops", []):
        if "file" in op:
            need.add(op["file"])
        for f in op.get("faults") or []:
            if "file" in f:
                need.add(f["file"])

    def walk(node):
        for v in node.values():
            if isinstance(v, dict):
                walk(v)
            elif isinstance(v, str) and v.startswith("@"):
                need.add(v[1:])
    if scenario.get("tree"):
        walk(scenario["tree"])
    need |= set(v for v in (scenario.get("named") or {}).values() if v in files or v in SHARED["files"])
    todo = list(need)
    while todo:
        fid = todo.pop()
        if fid not in files:
            if fid not in SHARED["files"]:
                raise KeyError(f"unknown file id {fid}")
            files[fid] = SHARED["files"][fid]
        b = files[fid].get("base")
        if b is not None and b not in files:
            todo.append(b)
    # materialise derived files (base + splices)
    from .faults import materialise
    out = {}
    for fid in files:
        out[fid] = materialise(fid, files)
    sc = dict(scenario)
    sc["files"] = out
    return sc


def run_in_child(scenario, wall_s=None):
    """Fork, execute, return the result dict. Never raises for anything the code under
    test does; a child that had to be killed yields {"killed": True}."""
    wall_s = wall_s or WALL_S
    wall_cap = WALL_CAP if not scenario.get("tick_mult") else 150.0
    r, w = os.pipe()
    sys.stdout.flush()
    sys.stderr.flush()
    # everything the run writes (its scratch tree) lives below a directory of its own that this process removes afterwards,
    # also when the child had to be killed and could not tidy up itself
    import tempfile
    rundir = tempfile.mkdtemp(prefix="nsimrun-", dir=core.SCRATCH_BASE)
    pid = os.fork()
    if pid == 0:
        code = 0
        try:
            os.close(r)
            core.SCRATCH_BASE = rundir
            try:
                sc = resolve_files(scenario)
                res = ("ok", core.execute(sc, wall_s=wall_s, wall_cap=wall_cap))
            except BaseException:  # noqa
                res = ("harness", traceback.format_exc())
            data = pickle.dumps(res, protocol=pickle.HIGHEST_PROTOCOL)
            with os.fdopen(w, "wb") as fh:
                fh.write(data)
        except BaseException:  # noqa
            code = 3
        finally:
            os._exit(code)
    os.close(w)
    chunks = []
    # the parent's limit only has to catch what the in-process backstop cannot see (a loop inside C code). It is measured in
    # wall time while the backstop counts CPU time per operation: on a loaded machine, or for a history of many operations,
    # a limit close to the cap kills runs that are merely slow - so it is generous, and scales with the number of operations
    deadline = time.monotonic() + max(wall_cap, wall_s) * 4.0 + 15.0 + 10.0 * len(scenario.get("ops") or [])
    killed = False
    while True:
        left = deadline - time.monotonic()
        if left <= 0:
            killed = True
            break
        rl, _, _ = select.select([r], [], [], min(left, 1.0))
        if rl:
            b = os.read(r, 1 << 20)
            if not b:
                break
            chunks.append(b)
    os.close(r)
    if killed:
        try:
            os.kill(pid, signal.SIGKILL)
        except ProcessLookupError:
            pass
    try:
        os.waitpid(pid, 0)
    except ChildProcessError:
        pass
    import shutil
    shutil.rmtree(rundir, ignore_errors=True)
    if killed:
        return {"killed": True}
    data = b"".join(chunks)
    if not data:
        return {"harness": "child died without a result"}
    kind, res = pickle.loads(data)
    if kind == "harness":
        return {"harness": res}
    return res


def _worker_init():
    faulthandler.enable()
    if core.N is None:
        core.boot()


def _run_chunk(chunk):
    out = []
    for idx, sc in chunk:
        out.append((idx, run_in_child(sc)))
    return out


class Pool:
    def __init__(self, workers=None):
        self.workers = workers or int(os.environ.get("NSIM_WORKERS", "0")) or min(16, os.cpu_count() or 4)
        if core.N is None:
            core.boot()
        self.ex = cf.ProcessPoolExecutor(max_workers=self.workers, mp_context=mp.get_context("fork"),
                                         initializer=_worker_init)
        self.runs = 0

    def close(self):
        self.ex.shutdown(wait=True, cancel_futures=True)

    def __enter__(self):
        return self

    def __exit__(self, *a):
        self.close()

    def stream(self, scenarios, on_result, chunk=8, inflight_per_worker=3):
        """scenarios: iterable of (idx, scenario). on_result(idx, scenario, result) is called in the
        parent, in completion order (aggregators must be order-independent)."""
        it = iter(scenarios)
        pending = {}
        exhausted = False
        maxin = self.workers * inflight_per_worker

        def submit():
            nonlocal exhausted
            ch = []
            for item in it:
                ch.append(item)
                if len(ch) >= chunk:
                    break
            else:
                exhausted = True
            if ch:
                fut = self.ex.submit(_run_chunk, ch)
                pending[fut] = ch
        while not exhausted and len(pending) < maxin:
            submit()
        while pending:
            done, _ = cf.wait(list(pending), return_when=cf.FIRST_COMPLETED)
            for fut in done:
                ch = pending.pop(fut)
                try:
                    res = fut.result()
                except cf.process.BrokenProcessPool as e:
                    raise HarnessError(f"worker lost: {e}")
                scs = dict(ch)
                for idx, r in res:
                    self.runs += 1
                    if "harness" in r:
                        raise HarnessError(f"run {idx}: {r['harness']}")
                    on_result(idx, scs[idx], r)
                while not exhausted and len(pending) < maxin:
                    submit()

    def map(self, scenarios, chunk=8):
        """list of scenarios -> list of results, same order."""
        out = [None] * len(scenarios)

        def on(idx, sc, r):
            out[idx] = r
        self.stream(list(enumerate(scenarios)), on, chunk=chunk)
        return out
