"""File pools shared by the engines (DESIGN 3.6). Built deterministically from the seed;
registered in pool.SHARED before the worker pool forks, so scenarios carry only file ids."""
from . import core, workload, faults, pool as poolmod
from .framework import classify


class Pools:
    def __init__(self, seed, n_gen=40, n_viol=40, n_cut=40, corpus_limit=None, tag="pool", n_comment=24, depth_family=False, enc_family=False, big_family=False):
        self.files = {}
        self.meta = {}
        self.groups = {}
        rng = core.derive_rng(f"{tag}.build", seed, 0)
        add = self.add
        corp = workload.corpus()
        if corpus_limit:
            idx = sorted(rng.sample(range(len(corp)), min(corpus_limit, len(corp))))
            corp = [corp[i] for i in idx]
        for name, content in corp:
            add("corpus", name, content, f"corpus:{name}")
            add("corpus_headed", name, workload.headed(name, content), f"corpus:{name}+header")
        # depth_family: files whose outcome depends on the depth of the caller's stack - only for engines whose reference and
        # variant runs share one call path, and never for fidelity samples against a real process
        for name, content, tag_ in workload.specials(depth_family=depth_family, enc_family=enc_family, big_family=big_family):
            add("special_" + tag_, name, content, f"special:{name}")
        gens = []
        for i in range(n_gen):
            r = core.derive_rng(f"{tag}.gen", seed, i)
            name, content, nst = workload.gen_conforming(r)
            fid = add("gen", name, content, f"gen:{seed}:{i}")
            self.meta[fid]["nstmts"] = nst
            gens.append((name, content, nst))
        for i in range(n_viol):
            r = core.derive_rng(f"{tag}.viol", seed, i)
            name, content, nst0 = gens[r.randrange(len(gens))] if gens else ("a.c", workload.ok_func(), None)
            c2, op = workload.gen_violating(r, name, content)
            vid = add("viol", name, c2, f"viol:{seed}:{i}:{op}")
            if op in workload.COUNT_PRESERVING and nst0 is not None:
                self.meta[vid]["nstmts"] = nst0
            if op.rstrip("0123456789") in ("commentrun_brace", "comment_run", "long_preamble", "comment_in_func_late", "upper_decl", "trailing_space",
                                           "label_body", "label_line", "label_last", "control_last"):
                self.meta[vid]["braces_known"] = True     # validated: these edits leave the brace structure what the generator emitted
            if op.startswith("comment_run") and nst0 is not None:
                self.meta[vid]["nstmts"] = nst0 + int(op[len("comment_run"):])      # each filler line is one more statement
        # damaged members: token-prefix cuts of corpus/generated files (what a short read delivers)
        bases = [fid for fid in self.files if self.meta[fid]["group"] in ("corpus", "gen", "viol")]
        for i in range(n_cut):
            r = core.derive_rng(f"{tag}.cut", seed, i)
            b = bases[r.randrange(len(bases))]
            content = self.files[b]["content"]
            spans = faults.token_offsets(core.N, self.files[b]["name"], content)
            if len(spans) < 3:
                continue
            k = r.randrange(1, len(spans))
            add("cut", self.files[b]["name"], content[:spans[k][0]], f"{self.meta[b]['origin']}+prefix_tok({k})")

        # members with comments inserted at token boundaries (comments are opaque to C, not always to a rule engine)
        bases = [fid for fid in self.files if self.meta[fid]["group"] in ("corpus", "gen", "viol", "special_clean", "special_zoo")]
        for i in range(n_comment):
            r = core.derive_rng(f"{tag}.comment", seed, i)
            b = bases[r.randrange(len(bases))]
            content = self.files[b]["content"]
            spans = faults.token_offsets(core.N, self.files[b]["name"], content)
            if len(spans) < 8:
                continue
            sp = []
            for _ in range(r.randrange(1, 4)):
                k = r.randrange(1, len(spans))
                cm = r.choice(["/* c */", "/* c */ ", " /* out */", "// c\n", "/*\n** c\n*/", "/**/", " /* a */ /* b */ "])
                sp.append([spans[k][0], spans[k][0], cm])
            sp = {a: [a, b2, t] for a, b2, t in sp}.values()
            add("commented", self.files[b]["name"], faults.apply_splices(content, list(sp)), f"{self.meta[b]['origin']}+comments")

    def add(self, group, name, content, origin):
        fid = f"{group[:2]}{len(self.files)}"
        self.files[fid] = {"name": name, "content": content, "origin": origin}
        self.meta[fid] = {"group": group, "origin": origin}
        self.groups.setdefault(group, []).append(fid)
        return fid

    def register(self):
        poolmod.SHARED["files"].update(self.files)

    def measure(self, pool, debug=0):
        """R-alone class of every member (measured)."""
        ids = list(self.files)
        rs = pool.map([{"ops": [{"op": "api", "file": fid, "debug": debug}]} for fid in ids])
        self.alone = {}
        self.cls = {}
        for fid, r in zip(ids, rs):
            if r.get("killed"):
                o = {"outcome": "hang", "site": None}
            else:
                o = r["ops"][0]
            self.alone[fid] = o
            self.cls[fid] = classify(o)
            self.meta[fid]["class"] = self.cls[fid]
        self.by_class = {}
        for fid in ids:
            self.by_class.setdefault(self.cls[fid], []).append(fid)
        return self.cls
