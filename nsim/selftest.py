"""Self-tests of the simulator itself (DESIGN 3.9): determinism and sensitivity."""
import json
import os
import subprocess
import sys
import tempfile

from . import framework as fw


def run_digests(prop, tier, seed, hashseed, workers, subsample):
    fd, path = tempfile.mkstemp(prefix="nsim-dig-", suffix=".json", dir="/dev/shm" if os.path.isdir("/dev/shm") else None)
    os.close(fd)
    env = dict(os.environ)
    env["NSIM_HASHSEED"] = env["PYTHONHASHSEED"] = str(hashseed)
    env["NSIM_WORKERS"] = str(workers)
    env["NSIM_SUBSAMPLE"] = str(subsample)
    p = subprocess.run([sys.executable, os.path.join(fw.VERIF, "check"), prop, "--tier", tier, "--seed", str(seed),
                        "--no-minimise", "--digests-out", path], env=env, capture_output=True, text=True)
    try:
        with open(path) as fh:
            d = json.load(fh)
    except Exception:
        d = None
    finally:
        try:
            os.unlink(path)
        except OSError:
            pass
    return d, p


def determinism(args):
    from .driver import ENGINES
    props = sorted(ENGINES)
    only = os.environ.get("NSIM_SELFTEST_PROPS")
    if only:
        props = only.split(",")
    sub = int(os.environ.get("NSIM_SELFTEST_SUBSAMPLE", "7"))
    bad = 0
    for prop in props:
        configs = [(0, 16), (0, 16), (5, 4), (11, 9)]
        res = []
        for hs, w in configs:
            d, p = run_digests(prop, args.tier, args.seed, hs, w, sub)
            if d is None:
                print(f"selftest-determinism {prop}: run failed (hashseed={hs} workers={w}) rc={p.returncode}\n{p.stdout[-1500:]}{p.stderr[-1500:]}")
                bad += 1
                break
            res.append(d)
        else:
            base = res[0]
            ok = True
            for (hs, w), d in zip(configs[1:], res[1:]):
                if d.keys() != base.keys():
                    print(f"selftest-determinism {prop}: run sets differ (hashseed={hs} workers={w}): {len(d)} vs {len(base)}")
                    ok = False
                    continue
                diff = [k for k in base if base[k] != d[k]]
                if diff:
                    print(f"selftest-determinism {prop}: {len(diff)} of {len(base)} digests differ (hashseed={hs} workers={w}), e.g. run {diff[:5]}")
                    ok = False
            print(f"selftest-determinism {prop}: {len(base)} runs x {len(configs)} executions (same interpreter config twice, "
                  f"other hash seeds, 4/9/16 workers): {'identical' if ok else 'DIVERGED'}")
            if not ok:
                bad += 1
    return 0 if bad == 0 else 2


def main(args):
    if args.what == "selftest-determinism":
        return determinism(args)
    if args.what == "selftest-sensitivity":
        from . import sensitivity
        return sensitivity.main(args)
    print("unknown selftest")
    return 2
