"""selftest-sensitivity (DESIGN 3.9): every mutant (hand-written /verif/mutants/*.patch and the
sub-agent-seeded /verif/seeded/*/patch.diff) is applied to a scratch copy of /repo outside /repo
and /verif, the owning property's check is run against the copy (NSIM_REPO) and must exit 1; the
copy is removed immediately. With NSIM_MUT_TESTS=1 the repository's own test suite is run on the
copy too and must stay green (that is what makes the mutant a realistic one)."""
import fnmatch
import glob
import json
import os
import shutil
import subprocess
import sys
import tempfile
import time

from . import core, framework as fw


def mutants():
    out = []
    for p in sorted(glob.glob(os.path.join(fw.VERIF, "mutants", "*.patch"))):
        name = os.path.basename(p)[:-6]
        out.append({"name": name, "patch": p, "props": [name.split("-")[0]], "strip": 1})
    for d in sorted(glob.glob(os.path.join(fw.VERIF, "seeded", "*"))):
        p = os.path.join(d, "patch.diff")
        m = os.path.join(d, "meta.json")
        if not os.path.exists(p):
            continue
        props = []
        tier_needed = None
        try:
            meta = json.load(open(m))
            props = meta.get("caught_by")
            if props is None:
                props = [meta.get("property")]
            if props == []:
                continue        # recorded as not caught (see the note in meta.json and DESIGN 7.5)
            tier_needed = meta.get("tier_needed")
        except Exception:
            pass
        out.append({"name": "seeded/" + os.path.basename(d), "patch": p, "props": [x for x in props if x], "strip": 1, "tier": tier_needed})
    return out


def make_copy():
    base = "/dev/shm" if os.path.isdir("/dev/shm") else None
    d = tempfile.mkdtemp(prefix="nsim-mut-", dir=base)
    subprocess.run(["rsync", "-a", "--exclude", ".git", "--exclude", "__pycache__", "--exclude", "pdf", core.REPO + "/", d + "/"], check=True)
    return d


def main(args):
    pat = os.environ.get("NSIM_MUTANTS", "*")
    run_tests = os.environ.get("NSIM_MUT_TESTS") == "1"
    tier = args.tier
    rows = []
    printed = 0
    bad = 0
    for m in mutants():
        if not fnmatch.fnmatch(m["name"], pat):
            continue
        d = make_copy()
        try:
            p = subprocess.run(["git", "apply", f"-p{m['strip']}", "--whitespace=nowarn", m["patch"]], cwd=d, capture_output=True, text=True)
            if p.returncode != 0:
                p = subprocess.run(["patch", f"-p{m['strip']}", "-s", "-i", m["patch"]], cwd=d, capture_output=True, text=True)
            if p.returncode != 0:
                rows.append((m["name"], "PATCH-DOES-NOT-APPLY", p.stderr.strip()[:200]))
                bad += 1
                continue
            tests = ""
            if run_tests:
                t = subprocess.run([sys.executable, "-m", "pytest", "-q", "-p", "no:cacheprovider", "-x"], cwd=d, capture_output=True, text=True,
                                   env=dict(os.environ, PYTHONPATH=d))
                tests = " tests:" + (t.stdout.strip().split("\n")[-1] if t.stdout.strip() else "?")
                if t.returncode != 0:
                    rows.append((m["name"], "SUITE-NOT-GREEN", tests))
                    bad += 1
                    continue
            caught = []
            t0 = time.time()
            for prop in m["props"]:
                env = dict(os.environ, NSIM_REPO=d)
                env.pop("NSIM_SUBSAMPLE", None)
                c = subprocess.run([sys.executable, os.path.join(fw.VERIF, "check"), prop, "--tier", m.get("tier") or tier, "--no-minimise"],
                                   capture_output=True, text=True, env=env)
                lines = [ln for ln in c.stdout.split("\n") if ln.startswith("VIOLATION")]
                clause = [ln.strip() for ln in c.stdout.split("\n") if ln.strip().startswith("clause=")][:1]
                if c.returncode == 1 and lines:
                    caught.append((prop, clause[0][:150] if clause else ""))
                elif c.returncode not in (0, 1):
                    rows.append((m["name"], f"HARNESS-ERROR rc={c.returncode} on {prop}", (c.stdout + c.stderr)[-300:]))
            if caught:
                rows.append((m["name"], "caught", f"{caught[0][0]} {caught[0][1]} ({time.time() - t0:.0f}s){tests}"))
            else:
                rows.append((m["name"], "MISSED", f"props tried: {m['props']}{tests}"))
                bad += 1
        finally:
            shutil.rmtree(d, ignore_errors=True)
            for row in rows[printed:]:
                print(f"{row[0]:45s} {row[1]:10s} {row[2]}", flush=True)
            printed = len(rows)
    # replays written while running against copies are of no further use
    n_mut = sum(1 for r in rows if not r[1].startswith("HARNESS-ERROR"))
    print(f"selftest-sensitivity: {n_mut - bad}/{n_mut} mutants detected")
    return 0 if bad == 0 else 2
