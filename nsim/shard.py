"""Executes scenarios (JSON list on stdin) in this interpreter's own zygote/fork pool and prints
the results as JSON. Used to run the same scenarios under another PYTHONHASHSEED (seam S7)."""
import json
import sys

from . import core, pool


def main():
    scs = json.load(sys.stdin)
    core.boot()
    with pool.Pool() as p:
        rs = p.map(scs)
    json.dump(rs, sys.stdout, default=str)


if __name__ == "__main__":
    main()
