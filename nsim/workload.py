"""Workload: the programs the simulated runs analyse (DESIGN 3.6). Program text is workload,
never the thing a check quantifies over. Class membership (clean / notice / erroneous / fatal /
internal / hang) is always *measured* with R-alone, never assumed from how a file was made."""
import glob
import os

from . import core

FRAME = "/* " + "*" * 74 + " */"


def header42(fname="file.c", login="marvin", created="2024/01/01 10:00:00", updated="2024/01/02 11:30:00",
             mail=None):
    mail = mail or f"{login}@student.42.fr"

    def line(left, right):
        body = left
        pad = 80 - 6 - len(left) - len(right)
        return "/* " + body + " " * max(pad, 1) + right + " */"
    rows = [
        FRAME,
        line("", ""),
        line("", ":::      ::::::::  "),
        line(f"  {fname}", ":+:      :+:    :+:  "),
        line("", "+:+ +:+         +:+    "),
        line(f"  By: {login} <{mail}>", "+#+  +:+       +#+       "),
        line("", "+#+#+#+#+#+   +#+          "),
        line(f"  Created: {created} by {login}", "#+#    #+#            "),
        line(f"  Updated: {updated} by {login}", "###   ########.fr      "),
        line("", ""),
        FRAME,
    ]
    return "\n".join(rows) + "\n"


def corpus():
    """The repository's own rule samples, sorted; [(basename, content)]."""
    out = []
    for p in sorted(glob.glob(os.path.join(core.REPO, "tests/rules/samples/*.[ch]"))):
        with open(p, encoding="utf-8", errors="surrogateescape") as fh:
            out.append((os.path.basename(p), fh.read()))
    return out


def headed(name, content):
    return header42(name) + "\n" + content


# --------------------------------------------------------------------------------------
# generator of conforming files (DESIGN 4.1) - seeded, biased, finite
# --------------------------------------------------------------------------------------
IDENTS = ["i", "j", "k", "n", "len", "idx", "count", "tmp", "res", "ptr", "str", "dst", "src", "size", "ret",
          "value", "total", "pos", "node", "buf"]
FUNCS = ["ft_strlen", "ft_putchar", "ft_memset", "ft_atoi", "compute", "helper", "ft_swap", "do_thing",
         "ft_abs", "list_size", "fill_tab", "sum_all"]
TYPES = ["int", "char", "long", "unsigned int", "float", "double", "size_t", "t_list", "short"]
CONSTS = ["0", "1", "42", "10", "0x2a", "0XFF", "017", "100u", "7L", "3ul", "1.5f", "2.0", "1e3", "'a'",
          "'\\n'", "'\\0'", "0b101", "255UL"]
BINOPS = ["+", "-", "*", "/", "%", "<", ">", "<=", ">=", "==", "!=", "&&", "||", "&", "|", "^", "<<", ">>"]
ASSIGN = ["=", "+=", "-=", "*=", "/=", "%=", "&=", "|=", "^=", "<<=", ">>="]


def tabs_to(col_from, col_to):
    """number of tabs that move the cursor from 0-based col_from to exactly col_to (multiple of 4)"""
    n = 0
    c = col_from
    while c < col_to:
        c = (c // 4 + 1) * 4
        n += 1
    return "\t" * n


class Gen:
    def __init__(self, rng, rich=False):
        self.r = rng
        self.stmts = 0     # statements emitted (lines consumed by one primary each)
        self.cont = 0      # continuation lines (a statement spread over two lines)
        self.rich = rich   # wider statement family (casts, chained assignment, empty loops, multi-line statements)
        self.big = False   # functions filled up to the 25-line limit, five functions per file

    def pick(self, xs):
        return xs[self.r.randrange(len(xs))]

    def expr(self, vars_, depth=0):
        r = self.r
        k = r.random()
        if depth >= 2 or k < 0.30:
            return self.pick(vars_) if r.random() < 0.6 else self.pick(CONSTS)
        if k < 0.60:
            return f"{self.expr(vars_, depth + 1)} {self.pick(BINOPS)} {self.expr(vars_, depth + 1)}"
        if k < 0.70:
            return f"({self.expr(vars_, depth + 1)})"
        if k < 0.80:
            args = ", ".join(self.expr(vars_, 2) for _ in range(r.randrange(0, 3)))
            return f"{self.pick(FUNCS)}({args})"
        if k < 0.86:
            return f"{self.pick(vars_)}[{self.expr(vars_, 2)}]"
        if k < 0.90:
            return f"-{self.pick(vars_)}"
        if k < 0.94:
            return f"!{self.pick(vars_)}"
        if k < 0.97:
            return f"sizeof({self.pick(['int', 'char', 'long'])})"
        return f"(int){self.pick(vars_)}"

    def cond(self, vars_):
        return f"{self.pick(vars_)} {self.pick(['<', '>', '==', '!=', '<=', '>='])} {self.expr(vars_, 1)}"

    def stmt(self, vars_, ind, lines, depth, in_loop):
        r = self.r
        t = "\t" * ind
        k = r.random()
        if depth < 2 and k < 0.18:
            lines.append(f"{t}if ({self.cond(vars_)})")
            self.stmts += 1
            self.block(vars_, ind, lines, depth + 1, in_loop)
            if r.random() < 0.4:
                if r.random() < 0.4:
                    lines.append(f"{t}else if ({self.cond(vars_)})")
                    self.stmts += 1
                    self.block(vars_, ind, lines, depth + 1, in_loop)
                lines.append(f"{t}else")
                self.stmts += 1
                self.block(vars_, ind, lines, depth + 1, in_loop)
            return
        if depth < 2 and k < 0.30:
            lines.append(f"{t}while ({self.cond(vars_)})")
            self.stmts += 1
            self.block(vars_, ind, lines, depth + 1, True)
            return
        self.stmts += 1
        if self.rich and k < 0.66:
            j = r.choice([0, 0, 0, 1, 2, 3, 4, 5, 6, 6, 7, 7, 8, 9, 10, 11])
            v = self.pick(vars_)
            w = self.pick(vars_)
            if j == 0 and depth < 2:
                lines.append(f"{t}while ({self.cond(vars_)})")
                lines.append(f"{t}\t;")
                self.cont += 1       # an empty body belongs to the control statement: one statement on two lines
            elif j == 1:
                lines.append(f"{t}(void){v};")
            elif j == 2:
                lines.append(f"{t}(void){v} = {w} = {self.pick(vars_)};")
            elif j == 3:
                lines.append(f"{t}*{v}++ = *{w}++;")
            elif j == 4:
                lines.append(f"{t}{v}->next->content = {self.expr(vars_, 2)};")
            elif j == 5:
                lines.append(f"{t}{v} = (char *)malloc(sizeof(char) * {self.pick(CONSTS[:4])});")
            elif j == 6:
                lines.append(f"{t}{v} = {self.pick(FUNCS)}({self.expr(vars_, 2)},")
                lines.append(f"{t}\t\t{self.expr(vars_, 2)});")
                self.cont += 1
            elif j == 7 and depth < 2:
                lines.append(f"{t}if ({self.cond(vars_)}")
                lines.append(f"{t}\t&& {self.cond(vars_)})")
                self.cont += 1
                lines.append(f"{t}\t{w}++;")
                self.stmts += 1
            elif j == 8:
                lines.append(f"{t}{v} = -{w} + ~{w} - !{v};")
            elif j == 9:
                lines.append(f"{t}{v}[{self.expr(vars_, 2)}].x = {w}.y;")
            elif j == 10:
                lines.append(f"{t}{self.pick(FUNCS)}(\"%s %d\\n\", {v}, {w});")
            else:
                lines.append(f"{t}(*{v})({w});")
            return
        if k < 0.60:
            lines.append(f"{t}{self.pick(vars_)} {self.pick(ASSIGN)} {self.expr(vars_)};")
        elif k < 0.75:
            args = ", ".join(self.expr(vars_, 2) for _ in range(r.randrange(0, 4)))
            lines.append(f"{t}{self.pick(FUNCS)}({args});")
        elif k < 0.82:
            lines.append(f"{t}{self.pick(vars_)}++;")
        elif k < 0.88 and in_loop:
            lines.append(f"{t}{self.pick(['break', 'continue'])} ;")
        else:
            lines.append(f"{t}{self.pick(vars_)}[{self.expr(vars_, 2)}] = {self.expr(vars_, 1)};")

    def block(self, vars_, ind, lines, depth, in_loop):
        r = self.r
        if r.random() < 0.5:
            t = "\t" * ind
            lines.append(f"{t}{{")
            self.stmts += 1
            for _ in range(r.randrange(1, 3)):
                self.stmt(vars_, ind + 1, lines, depth, in_loop)
            lines.append(f"{t}}}")
            self.stmts += 1
        else:
            self.stmt(vars_, ind + 1, lines, depth + 5, in_loop)   # single simple statement

    def head(self):
        r = self.r
        rtype = self.pick(["int", "char", "void", "long", "size_t", "char", "int"])
        static = "static " if r.random() < 0.25 else ""
        return static, rtype

    def function(self, name, col, head=None):
        r = self.r
        static, rtype = head or self.head()
        star = "*" if rtype == "char" and r.random() < 0.6 else ""
        nparams = r.randrange(0, 5)
        names = r.sample(IDENTS, nparams + r.randrange(0, 5))
        params = names[:nparams]
        locs = names[nparams:]
        if nparams == 0:
            plist = "void"
        else:
            plist = ", ".join(f"{self.pick(['int', 'char', 'long', 'size_t'])} {'*' if r.random() < 0.3 else ''}{p}"
                              for p in params)
        head = f"{static}{rtype}"
        lines = [f"{head}\t{star}{name}({plist})", "{"]
        self.stmts += 2
        vars_ = params + locs or ["g_x"]
        if locs:
            ltypes = [self.pick(["int", "char", "long", "size_t", "unsigned int"]) for _ in locs]
            vcol = max(((len(t) + 4) // 4 + 1) * 4 for t in ltypes)   # includes the leading tab
            vcol = max(vcol, col + 0)
            for t, v in zip(ltypes, locs):
                arr = f"[{self.pick(['4', '10', '42'])}]" if r.random() < 0.15 else ""
                st = "*" if r.random() < 0.2 and not arr else ""
                lines.append(f"\t{t}{tabs_to(4 + len(t), vcol)}{st}{v}{arr};")
                self.stmts += 1
            lines.append("")
            self.stmts += 1
        body = []
        if self.big:
            # a function at the norm's size limit: the body is filled up to 25 lines (declarations and return included)
            budget = 25 - (len(locs) + 1 if locs else 0) - 1
            guard = 0
            while len(body) < budget - 3 and guard < 60:
                guard += 1
                trial = []
                save = (self.stmts, self.cont)
                self.stmt(vars_ or ["g_x"], 1, trial, 0, False)
                if len(body) + len(trial) <= budget:
                    body += trial
                else:
                    self.stmts, self.cont = save
        else:
            for _ in range(r.randrange(1, 5)):
                self.stmt(vars_ or ["g_x"], 1, body, 0, False)
                if len(body) > 18:
                    break
        lines += body
        if rtype == "void" and not star:
            if r.random() < 0.3:
                lines.append("\treturn ;")
                self.stmts += 1
        else:
            lines.append(f"\treturn ({self.expr(vars_, 1)});")
            self.stmts += 1
        lines.append("}")
        self.stmts += 1
        return lines

    def comment_block(self, out):
        """A comment at global scope: one statement, possibly on several lines."""
        r = self.r
        k = r.randrange(4)
        if k == 0:
            out.append("// " + self.pick(["helper", "see below", "TODO later", "x = y * 2;"]))
        elif k == 1:
            out.append("/* " + self.pick(["one line", "int a;", "return (0);"]) + " */")
        else:
            n = r.randrange(1, 4)
            out.append("/*")
            for _ in range(n):
                out.append("** " + self.pick(["about this", "if (x) {", "#define Y", "'quote", "line \\"]))
            out.append("*/")
            self.cont += n + 1

    def preproc_block(self, out, depth):
        """#ifdef / #if blocks with nested defines (indented as the norm wants)."""
        r = self.r
        ind = " " * depth
        k = r.randrange(4)
        m = self.pick(["BUFFER_SIZE", "MAX_LEN", "ZERO", "FLAG_A", "DEBUG"])
        if k == 0:
            out += [f"#{ind}ifdef {m}", f"#{ind} define {m}_B 1", f"#{ind}else", f"#{ind} define {m}_B 2", f"#{ind}endif"]
        elif k == 1:
            out += [f"#{ind}if defined({m}) && ({m} > 2 || !ZERO)", f"#{ind} define W 1", f"#{ind}elif {m} == 3", f"#{ind} define W 2", f"#{ind}endif"]
        elif k == 2:
            out += [f"#{ind}ifndef {m}", f"#{ind} define {m} {self.pick(CONSTS[:6])}", f"#{ind}endif", f"#{ind}undef ZERO"]
        else:
            c = self.pick(["0", "1", "0", "(0)", "!1"])
            out += [f"#{ind}if {c}", f"#{ind} define {m}_OFF 1", f"#{ind}else", f"#{ind} define {m}_ON 1", f"#{ind} define {m}_ON2 2", f"#{ind}endif"]

    def c_file(self, name):
        r = self.r
        self.stmts = 0
        self.cont = 0
        out = header42(name).rstrip("\n").split("\n")
        self.stmts += 11
        out.append("")
        self.stmts += 1
        if r.random() < 0.6:
            for _ in range(r.randrange(1, 3)):
                inc = self.pick(['"libft.h"', "<stdlib.h>", "<unistd.h>", '"ft_printf.h"', "<stdio.h>"])
                out.append(f"#include {inc}")
                self.stmts += 1
            out.append("")
            self.stmts += 1
        if r.random() < 0.3:
            for _ in range(r.randrange(1, 3)):
                out.append(f"#define {self.pick(['BUFFER_SIZE', 'MAX_LEN', 'ZERO', 'FLAG_A'])} {self.pick(CONSTS[:8])}")
                self.stmts += 1
            out.append("")
            self.stmts += 1
        if self.rich and r.random() < 0.4:
            self.preproc_block(out, 0)
            out.append("")
        if self.rich and r.random() < 0.4:
            self.comment_block(out)
            out.append("")
        nf = 5 if self.big else r.randrange(1, 5)
        names = r.sample(FUNCS, nf)
        heads = [self.head() for _ in names]
        col = max((len(a + b) // 4 + 1) * 4 for a, b in heads)
        for k, fn in enumerate(names):
            out += self.function(fn, col, heads[k])
            if k != nf - 1:
                out.append("")
                self.stmts += 1
                if self.rich and r.random() < 0.3:
                    self.comment_block(out)
        content = "\n".join(out) + "\n"
        return content, content.count("\n") - self.cont

    def h_file(self, name):
        r = self.r
        self.stmts = 0
        self.cont = 0
        guard = name.upper().replace(".", "_")
        out = header42(name).rstrip("\n").split("\n")
        out += ["", f"#ifndef {guard}", f"# define {guard}", ""]
        if r.random() < 0.6:
            for _ in range(r.randrange(1, 3)):
                out.append(f"# include {self.pick(['<stdlib.h>', '<unistd.h>', '<stddef.h>', '\"libft.h\"', '\"ft_printf.h\"'])}")
            out.append("")
        if r.random() < 0.5:
            for _ in range(r.randrange(1, 3)):
                out.append(f"# define {self.pick(['BUFFER_SIZE', 'MAX_LEN', 'ZERO', 'FLAG_A'])} {self.pick(CONSTS[:8])}")
            out.append("")
        col = 8
        if self.rich and r.random() < 0.5:
            self.preproc_block(out, 1)
            out.append("")
        if self.rich and r.random() < 0.4:
            self.comment_block(out)
            out.append("")
        if self.rich and r.random() < 0.4:
            kind = self.pick(["enum", "union", "struct_plain", "fptr"])
            if kind == "enum":
                out += ["typedef enum e_c", "{", "\tRED,", "\tBLUE = 2", "}\tt_c;", ""]
            elif kind == "union":
                out += ["typedef union u_u", "{", "\tint\t\ta;", "\tchar\tb;", "}\tt_u;", ""]
            elif kind == "struct_plain":
                out += ["struct s_p", "{", "\tint\t\t\ta;", "\tstruct s_p\t*next;", "};", ""]
            else:
                out += ["typedef int\t(*t_f)(int);", ""]
        if r.random() < 0.6:
            tn = self.pick(["list", "node", "data", "vec"])
            members = r.sample(IDENTS, r.randrange(1, 4))
            out += [f"typedef struct s_{tn}"]
            if self.rich and r.random() < 0.35:
                self.comment_block(out)       # a comment between the struct line and its brace
            out += ["{"]
            mt = [self.pick(["int", "char", "long", "size_t"]) for _ in members]
            for t, m in zip(mt, members):
                st = "*" if r.random() < 0.3 else ""
                out.append(f"\t{t}{tabs_to(4 + len(t), 12)}{st}{m};")
            out.append(f"}}{tabs_to(1, 12)}t_{tn};")
            out.append("")
            col = 12
        for fn in r.sample(FUNCS, r.randrange(1, 5)):
            rtype = self.pick(["int", "char", "void", "long", "size_t"])
            star = "*" if rtype == "char" and r.random() < 0.5 else ""
            np_ = r.randrange(0, 4)
            plist = "void" if np_ == 0 else ", ".join(
                f"{self.pick(['int', 'char', 'long'])} {'*' if r.random() < 0.3 else ''}{p}"
                for p in r.sample(IDENTS, np_))
            out.append(f"{rtype}{tabs_to(len(rtype), col)}{star}{fn}({plist});")
        out += ["", "#endif"]
        content = "\n".join(out) + "\n"
        return content, content.count("\n") - self.cont


def gen_conforming(rng, kind=None):
    g = Gen(rng, rich=rng.random() < 0.5)
    g.big = rng.random() < 0.15
    kind = kind or ("c" if rng.random() < 0.7 else "h")
    base = g.pick(["main", "ft_utils", "list", "parse", "a", "ft_split_2"])
    name = f"{base}.{kind}"
    content, nst = (g.c_file(name) if kind == "c" else g.h_file(name))
    return name, content, nst


# --------------------------------------------------------------------------------------
# violating edits (DESIGN 4.2 catalogue, workload only)
# --------------------------------------------------------------------------------------
# edits that leave the segmentation into statements unchanged (measured on 4 000 variants: the count never differed)
COUNT_PRESERVING = {"brace_same_line", "comma_space", "double_space", "extra_tab", "guard_define_other", "guard_lower", "guard_wrong_symbol",
                    "header_field_removed", "header_slashes", "kw_glued", "no_void", "op_nospace", "return_noparen", "space_before_semi",
                    "spaces_indent", "tab_in_expr", "trailing_space", "upper_ident", "stray_eol_preproc"}


def gen_violating(rng, name, content, force_op=None):
    """One seeded edit operator applied to a conforming file. Returns (content, operator)."""
    lines = content.split("\n")
    body_idx = [i for i, ln in enumerate(lines) if i > 11 and ln.startswith("\t") and ln.strip()]
    any_idx = [i for i, ln in enumerate(lines) if i > 11 and ln.strip()]
    ops = ["trailing_space", "spaces_indent", "extra_tab", "blank_in_func", "two_blank", "no_void", "upper_ident",
           "return_noparen", "two_stmt", "for_loop", "ternary", "op_nospace", "comma_space", "kw_glued",
           "comment_in_func", "long_line", "decl_assign", "goto", "space_before_semi", "eof_blank", "no_header",
           "lower_macro", "brace_same_line", "double_space", "tab_in_expr",
           # 42 header mutations (4.13), stray characters at the end of preprocessor lines
           "header_line_removed", "header_frame_short", "header_slashes", "header_after_blank", "header_field_removed",
           "stray_eol_preproc", "stray_eol_preproc"]
    # violations at extreme positions: as late as possible in the longest function / in the file, after a long preamble
    ops += ["comment_in_func_late", "decl_late", "late_include", "long_preamble", "comment_in_func_late", "upper_decl", "upper_global",
            "comment_run", "label_body", "label_line", "label_last", "control_last"]
    if name.endswith(".h"):
        # include-guard mutations (4.14)
        ops += ["guard_no_define", "guard_no_define", "guard_wrong_symbol", "guard_lower", "guard_doubled", "decl_before_guard",
                "decl_after_endif", "no_guard", "guard_define_other"]
    op = force_op or ops[rng.randrange(len(ops))]
    pre_idx = [i for i, ln in enumerate(lines) if i > 11 and ln.lstrip().startswith("#")]
    if op.startswith("guard_") or op in ("decl_before_guard", "decl_after_endif", "no_guard"):
        gi = next((i for i, ln in enumerate(lines) if ln.startswith("#ifndef ")), None)
        di = next((i for i, ln in enumerate(lines) if ln.startswith("# define ") and gi is not None and i == gi + 1), None)
        ei = max((i for i, ln in enumerate(lines) if ln.startswith("#endif")), default=None)
        if gi is not None and di is not None and ei is not None:
            sym = lines[gi].split()[1]
            if op == "guard_no_define":
                del lines[di]
            elif op == "guard_wrong_symbol":
                lines[gi] = "#ifndef OTHER_H"
                lines[di] = "# define OTHER_H"
            elif op == "guard_lower":
                lines[gi] = "#ifndef " + sym.lower()
                lines[di] = "# define " + sym.lower()
            elif op == "guard_doubled":
                lines[di + 1:di + 1] = ["# ifndef " + sym + "_2", "#  define " + sym + "_2", "# endif"]
            elif op == "decl_before_guard":
                lines[gi:gi] = ["int\tft_early(void);", ""]
            elif op == "decl_after_endif":
                lines[ei + 1:ei + 1] = ["int\tft_late(void);"]
            elif op == "no_guard":
                del lines[ei]
                del lines[di]
                del lines[gi]
            elif op == "guard_define_other":
                lines[di] = "# define " + sym + "_X"
        return "\n".join(lines), op
    if op in ("comment_in_func_late", "decl_late"):
        # the last statement line of the longest function body
        best = None
        start = None
        for j, ln in enumerate(lines):
            if ln == "{":
                start = j
            elif ln == "}" and start is not None:
                if best is None or j - start > best[1] - best[0]:
                    best = (start, j)
                start = None
        if best:
            # somewhere in the last part of the body (often inside a nested block), not necessarily the very last line
            lo = best[0] + 1 + int((best[1] - best[0] - 1) * 0.6)
            j = rng.randrange(lo, best[1]) if best[1] > lo else best[1] - 1
            while j > best[0] and not lines[j].startswith("\t"):
                j -= 1
            ind = lines[j][:len(lines[j]) - len(lines[j].lstrip("\t"))] or "\t"
            lines.insert(j, f"{ind}/* late */" if op == "comment_in_func_late" else f"{ind}int\tlate_var;")
        return "\n".join(lines), op
    if op == "upper_decl":
        import re
        for j, ln in enumerate(lines):
            m = re.match(r"^\t(int|char|long|size_t|unsigned int)\t+\*?([a-z_]+)(\[\d+\])?;$", ln)
            if m and j > 11:
                old_name = m.group(2)
                new_name = old_name.upper() if rng.random() < 0.5 else old_name.capitalize()
                pat = re.compile(r"\b" + re.escape(old_name) + r"\b")
                k = j
                while k < len(lines) and lines[k] != "}":
                    lines[k] = pat.sub(new_name, lines[k])
                    k += 1
                break
        return "\n".join(lines), op
    if op == "upper_global":
        lines[12:12] = ["int\tBadGlobal;", "char\t*g_Names;", ""]
        return "\n".join(lines), op
    if op == "comment_run":
        # a very long run of one-line comments between two statements (also between a declaration and its brace)
        cand = [j for j, ln in enumerate(lines) if j > 11 and (ln == "{" or (ln.startswith("#") and not lines[j - 1].rstrip().endswith("\\"))
                                                              or (ln[:1].isalpha() and ln.endswith(")")))]
        j = cand[rng.randrange(len(cand))] if cand else 12
        n = rng.choice([70, 130, 130, 260])
        before_brace = lines[j] == "{"
        lines[j:j] = [f"// filler {k}" for k in range(n)]
        # between a declaration and its brace the declaration statement absorbs part of the run: the count is only known elsewhere
        return "\n".join(lines), (f"commentrun_brace{n}" if before_brace else f"comment_run{n}")
    if op in ("label_last", "control_last"):
        # a brace-less control statement as the very last statement of a function (its body a labelled statement, or a plain one)
        ends = [j for j, ln in enumerate(lines) if ln == "}" and j > 13]
        if ends:
            j = ends[rng.randrange(len(ends))]
            kw = rng.choice(["if", "while"])
            body = rng.choice(["done: return ;", "stop : g_x++;", "again: ft_x(1);"]) if op == "label_last" else rng.choice(["g_x++;", "return ;", ";"])
            lines[j:j] = [f"\t{kw} (g_x > 0)", f"\t\t{body}"]
        return "\n".join(lines), op
    if op in ("label_body", "label_line"):
        import re
        cand = []
        for j in range(13, len(lines) - 1):
            m = re.match(r"^(\t+)(if|while|else if) \(", lines[j])
            if m and not lines[j + 1].strip() in ("{",) and lines[j + 1].startswith(m.group(1) + "\t") and lines[j + 1].rstrip().endswith(";") \
                    and not lines[j].rstrip().endswith("&&") and lines[j].count("(") == lines[j].count(")"):
                cand.append(j + 1)
        if cand:
            j = cand[rng.randrange(len(cand))]
            ind = lines[j][:len(lines[j]) - len(lines[j].lstrip("\t"))]
            body = lines[j].lstrip("\t")
            if op == "label_body":
                lines[j] = f"{ind}{rng.choice(['done', 'again', 'stop'])}{rng.choice([':', ' :'])} {body}"      # the whole body is one labelled statement
            else:
                lines[j:j] = [f"{rng.choice(['done', 'out'])}:"]                                       # a label on its own line before the body
        return "\n".join(lines), op
    if op == "type_end_declarator":
        # the closing brace of a struct/union/enum body followed by a declarator that does not start with an identifier
        # (a pointer, a function pointer, an array of pointers), or by an attribute: the type scope ends there all the same
        cand = [j for j, ln in enumerate(lines) if j > 11 and (ln == "};" or (ln.startswith("}\t") and ln.endswith(";") and "(" not in ln))]
        if cand:
            j = cand[rng.randrange(len(cand))]
            lines[j] = rng.choice(["}\t*g_head;", "}\t**g_tab;", "}\t(*g_fp)(void);", "}\t*g_arr[3];", "}\t*g_a, *g_b;"])
        return "\n".join(lines), op
    if op == "nest_body":
        # the single statement of a brace-less control statement becomes itself a brace-less loop: with an empty body, or
        # with the old statement as its body (forced only; never drawn, so the viol pools stay what they were)
        import re
        cand = []
        for j in range(13, len(lines) - 1):
            m = re.match(r"^(\t+)((if|while|else if) \(|else$)", lines[j])
            if m and lines[j + 1].strip() != "{" and lines[j + 1].startswith(m.group(1) + "\t") and lines[j + 1].rstrip().endswith(";") \
                    and not lines[j + 1].lstrip("\t").startswith(("if ", "while ", "else")) \
                    and not lines[j].rstrip().endswith("&&") and lines[j].count("(") == lines[j].count(")") and lines[j + 1].strip() != ";":
                cand.append(j + 1)
        if cand:
            j = cand[rng.randrange(len(cand))]
            ind = lines[j][:len(lines[j]) - len(lines[j].lstrip("\t"))]
            body = lines[j].lstrip("\t")
            kw = rng.choice(["while (g_x-- > 0)", "while (ft_x(g_x))", "if (g_x)"])
            if kw.startswith("if") and j + 1 < len(lines) and lines[j + 1].lstrip("\t").startswith("else"):
                kw = "while (g_x)"         # no dangling else: that would change which statement the else belongs to
            if kw.startswith("while") and rng.random() < 0.6:
                lines[j:j + 1] = [f"{ind}{kw}", f"{ind}\t;"]
            else:
                lines[j:j + 1] = [f"{ind}{kw}", f"{ind}\t{body}"]
        return "\n".join(lines), op
    if op == "late_include":
        lines += ["#include <string.h>", ""] if lines and lines[-1] == "" else ["", "#include <string.h>"]
        return "\n".join(lines), op
    if op == "long_preamble":
        lines[12:12] = ["// preamble %d" % k for k in range(20)] + [""]
        return "\n".join(lines), op
    if op == "header_line_removed":
        del lines[rng.randrange(11)]
        return "\n".join(lines), op
    if op == "header_frame_short":
        lines[0] = lines[0].replace("*", "", 1)
        return "\n".join(lines), op
    if op == "header_slashes":
        lines[:11] = ["//" + ln[2:] for ln in lines[:11]]
        return "\n".join(lines), op
    if op == "header_after_blank":
        lines.insert(0, "")
        return "\n".join(lines), op
    if op == "header_field_removed":
        k = rng.choice([5, 7, 8])
        lines[k] = FRAME[:3] + " " * 74 + FRAME[-3:]
        return "\n".join(lines), op
    if op == "stray_eol_preproc" and pre_idx:
        j = pre_idx[rng.randrange(len(pre_idx))]
        tail = rng.choice([" \\ ", " \\\t", " @", " \\ // c", "\\"])
        lines[j] += tail
        return "\n".join(lines), (op if tail in (" \\ ", " \\\t", " @") else "splice_eol_preproc")

    def pick(idx):
        return idx[rng.randrange(len(idx))] if idx else None
    i = pick(body_idx)
    if op == "trailing_space" and any_idx:
        j = pick(any_idx)
        lines[j] += " "
    elif op == "spaces_indent" and i is not None:
        lines[i] = "    " + lines[i].lstrip("\t")
    elif op == "extra_tab" and i is not None:
        lines[i] = "\t" + lines[i]
    elif op == "blank_in_func" and i is not None:
        lines.insert(i, "")
    elif op == "two_blank":
        lines.insert(12, "")
    elif op == "no_void":
        lines = [ln.replace("(void)", "()") for ln in lines]
    elif op == "upper_ident" and i is not None:
        lines[i] = lines[i].replace("tmp", "Tmp").replace("len", "LEN").replace("i ", "I ")
    elif op == "return_noparen":
        lines = [ln.replace("return (", "return ").replace(");", ";") if "return (" in ln else ln for ln in lines]
    elif op == "two_stmt" and i is not None:
        lines[i] = lines[i] + " i++;"
    elif op == "for_loop" and i is not None:
        t = lines[i][:len(lines[i]) - len(lines[i].lstrip("\t"))]
        lines[i:i] = [f"{t}for (i = 0; i < 3; i++)", f"{t}\ti--;"]
    elif op == "ternary" and i is not None:
        t = lines[i][:len(lines[i]) - len(lines[i].lstrip("\t"))]
        lines.insert(i, f"{t}i = (i > 0) ? 1 : 2;")
    elif op == "op_nospace":
        lines = [ln.replace(" = ", "=", 1) if ln.startswith("\t") else ln for ln in lines]
    elif op == "comma_space":
        lines = [ln.replace(", ", " ,", 1) if j > 11 else ln for j, ln in enumerate(lines)]
    elif op == "kw_glued":
        lines = [ln.replace("while (", "while(").replace("if (", "if(") for ln in lines]
    elif op == "comment_in_func" and i is not None:
        lines.insert(i, "\t// a comment")
    elif op == "long_line" and i is not None:
        lines[i] = lines[i].rstrip(";") + " + 1" * 22 + ";"
    elif op == "decl_assign" and i is not None:
        lines.insert(i, "\tint\tzz = 3;")
    elif op == "goto" and i is not None:
        lines.insert(i, "\tgoto end;")
    elif op == "space_before_semi" and i is not None:
        lines[i] = lines[i].replace(";", " ;", 1)
    elif op == "eof_blank":
        lines.append("")
    elif op == "no_header":
        lines = lines[12:]
    elif op == "lower_macro":
        lines.insert(12, "#define lower 1\n")
    elif op == "brace_same_line":
        for j, ln in enumerate(lines):
            if ln.endswith(")") and j + 1 < len(lines) and lines[j + 1].strip() == "{":
                lines[j] = ln + " {"
                del lines[j + 1]
                break
    elif op == "double_space":
        lines = [ln.replace(" = ", "  = ", 1) if ln.startswith("\t") else ln for ln in lines]
    elif op == "tab_in_expr":
        lines = [ln.replace(" = ", "\t= ", 1) if ln.startswith("\t") else ln for ln in lines]
    return "\n".join(lines), op


# --------------------------------------------------------------------------------------
# special classes (DESIGN 3.6 item 4)
# --------------------------------------------------------------------------------------
def ok_func(name="a.c", body="\treturn (0);\n", fname="main"):
    return header42(name) + f"\nint\t{fname}(void)\n{{\n{body}}}\n"


def specials(depth_family=False, enc_family=False, big_family=False):
    """[(name, content, tag)] hand-made members; their class is measured, the tag is only a label."""
    out = []
    H = header42
    out.append(("clean_min.c", ok_func("clean_min.c"), "clean"))
    out.append(("clean_two.c", H("clean_two.c") + "\n#include <unistd.h>\n\nint\tft_a(int a)\n{\n\treturn (a + 1);\n}\n\n"
                "int\tft_b(int b)\n{\n\tif (b > 3)\n\t\treturn (b);\n\treturn (0);\n}\n", "clean"))
    out.append(("clean_h.h", H("clean_h.h") + "\n#ifndef CLEAN_H_H\n# define CLEAN_H_H\n\nint\tft_a(int a);\n\n#endif\n", "clean"))
    out.append(("notice_global.c", H("notice_global.c") + "\nint\tg_count = 0;\n\nint\tmain(void)\n{\n\treturn (g_count);\n}\n",
                "notice"))
    out.append(("notice_escape.c", ok_func("notice_escape.c", body="\tft_putstr(\"a\\qb\");\n\treturn (0);\n"), "notice"))
    out.append(("err_space.c", ok_func("err_space.c", body="\treturn (0); \n"), "erroneous"))
    out.append(("err_noheader.c", "int\tmain(void)\n{\n\treturn (0);\n}\n", "erroneous"))
    out.append(("err_many.c", ok_func("err_many.c", body="\tint a=3;\n  a ++ ;\n\treturn a;\n"), "erroneous"))
    out.append(("err_h.h", "int\tft_a(int a);\n", "erroneous"))
    # fatal family
    out.append(("fatal_garbage.c", ok_func("fatal_garbage.c") + "\n)\n", "fatal"))
    out.append(("fatal_paren.c", H("fatal_paren.c") + "\nint\tmain(void)\n{\n\treturn ((0);\n}\n", "fatal"))
    out.append(("fatal_include.c", H("fatal_include.c") + "\n#include stdio\n\nint\tmain(void)\n{\n\treturn (0);\n}\n", "fatal"))
    out.append(("fatal_preproc.c", H("fatal_preproc.c") + "\n#42\n", "fatal"))
    for d, expr in (("1", "(1 +"), ("def", "defined(A"), ("empty", ""), ("op", "1 + + )"), ("deep", "(" * 30 + "1")):
        out.append((f"fatal_if_{d}.c", H(f"fatal_if_{d}.c") + f"\n#if {expr}\n# define A 1\n#endif\n", "fatal"))
    out.append(("fatal_elif.c", H("fatal_elif.c") + "\n#if 1\n# define A 1\n#elif (2\n# define A 2\n#endif\n", "fatal"))
    out.append(("fatal_if_nest120.c", H("fatal_if_nest120.c") + "\n#if " + "(" * 120 + "1" + ")" * 120 + "\n#endif\n", "fatal"))
    out.append(("fatal_brace.c", H("fatal_brace.c") + "\nint\tmain(void)\n{\n\tif (1)\n\t{\n\treturn (0);\n}\n", "fatal"))
    out.append(("fatal_define.c", H("fatal_define.c") + "\n#define\n", "fatal"))
    # fatal files whose message quotes source text with characters that are special to formatting layers
    out.append(("fatal_fmt.c", ok_func("fatal_fmt.c") + "\n] \"x=%d, s=%s {0} {name} %(k)s \\\\ \\n\";\n", "fatal"))
    out.append(("fatal_fmt2.c", H("fatal_fmt2.c") + "\n) 100%1 'a' \"\u00e9\u4e16 \\x1b[31m %\";\nint\tmain(void)\n{\n\treturn (0);\n}\n", "fatal"))
    # state-stressing family
    out.append(("stress_badlex150.c", ok_func("stress_badlex150.c") + "@" * 150 + "\n", "stress"))
    out.append(("stress_badlex90.c", ok_func("stress_badlex90.c", body="\treturn (0);" + "$" * 90 + "\n"), "stress"))
    out.append(("stress_nest120.c", ok_func("stress_nest120.c", body="\treturn (" + "(" * 120 + "0" + ")" * 120 + ");\n"), "stress"))
    out.append(("stress_nest60.c", ok_func("stress_nest60.c", body="\ta = " + "(" * 60 + "0" + ")" * 60 + ";\n\treturn (0);\n"), "stress"))
    out.append(("stress_brack80.c", ok_func("stress_brack80.c", body="\ta" + "[" * 80 + "0" + "]" * 80 + " = 1;\n\treturn (0);\n"), "stress"))
    out.append(("stress_if40.c", H("stress_if40.c") + "\n" + "".join(f"#if {'(' * k}1{')' * k}\n#endif\n" for k in range(1, 41)), "stress"))
    out.append(("stress_splice60.c", ok_func("stress_splice60.c", body="\treturn (0);\n") + "// c" + "\\\n" * 60 + "\n", "stress"))
    out.append(("stress_long_expr.c", ok_func("stress_long_expr.c", body="\ta = 1" + " + 1" * 200 + ";\n\treturn (0);\n"), "stress"))
    out.append(("stress_if_ok_deep.h", H("stress_if_ok_deep.h") + "\n#ifndef STRESS_IF_OK_DEEP_H\n# define STRESS_IF_OK_DEEP_H\n\n# if "
                + "(" * 45 + "1" + ")" * 45 + "\n#  define A 1\n# endif\n\n#endif\n", "stress"))
    # statement zoo: forms several primary rules compete for (clean ones and forbidden-but-parsable ones)
    zoo_clean = ("\tint\t\ta;\n\tint\t\tb;\n\tint\t\tc;\n\tchar\t*p;\n\tt_list\t*l;\n\n"
                 "\t(void)a;\n\t(void)a = b = c;\n\t*p++ = *p++;\n\tl->next->content = 0;\n\tl[1].x = b;\n"
                 "\tp = (char *)malloc(sizeof(char) * 3);\n\ta = -b + ~c - !a;\n\ta = sizeof(int) * sizeof b;\n"
                 "\twhile (a++ < 3)\n\t\t;\n\tif (a == 1\n\t\t&& b == 2)\n\t\tc = ft_x(1,\n\t\t\t\t2);\n"
                 "\tft_putstr(\"a\"\n\t\t\"b\");\n\t(*p)(a);\n\treturn (ft_x(a, b) + 3);\n")
    # a member spelt like a keyword after `call(...)->`, and the ordinary form, in separate files (state that is used up by the first
    # such statement of a process shows only when the two are analysed one after the other)
    # header dates that do not exist, or exist twice, on some wall clocks (daylight-saving gaps and overlaps, a leap day, the epoch):
    # whatever a rule computes from them may not depend on the zone the process runs in
    for k, (cr, up) in enumerate((("2021/03/28 02:45:00", "2021/03/28 03:10:00"), ("2021/03/14 02:30:00", "2021/03/14 03:05:00"),
                                  ("2021/10/31 02:30:00", "2021/10/31 02:10:00"), ("2024/02/29 23:59:59", "2024/03/01 00:00:00"),
                                  ("1970/01/01 00:00:00", "1969/12/31 23:59:59"), ("2038/01/19 03:14:08", "2038/01/19 03:14:07"))):
        body = "\nint\tmain(void)\n{\n\treturn (0);\n}\n"
        out.append((f"hdr_date{k}.c", header42(f"hdr_date{k}.c", created=cr, updated=up) + body, "clean"))
    # editor encoding declarations and look-alikes in the first two lines (what a "coding:" sniffing reader would act on)
    for k, first in enumerate(("/* -*- coding: utf-8-unix -*- */", "// vim: set fileencoding=rot13 :", "/* base64 decoding: rfc4648 */",
                               "/* -*- coding: iso-latin-1-dos -*- */", "// coding=no_such_codec", "/* coding: utf-16 */", "// -*- coding: latin-1 -*-")):
        out.append((f"coding_decl{k}.c", first + "\n" + ok_func(f"coding_decl{k}.c"), "erroneous"))
    out.append(("zoo_badlex3.c", ok_func("zoo_badlex3.c", body="\ta = 1;$\n\tb = 2;@\n\tc = 3;`\n\treturn (0);\n"), "zoo"))
    out.append(("zoo_badlex3.h", H("zoo_badlex3.h") + "\n#ifndef ZOO_BADLEX3_H\n# define ZOO_BADLEX3_H\n\nint\tft_a(void);$\nint\tft_b(void);@\n\n#endif\n", "zoo"))
    out.append(("zoo_vla.c", H("zoo_vla.c") + "\nint\tft_sum(int n)\n{\n\tint\ttab[n];\n\tchar\tbuf[n + 1][2 * n];\n\n\ttab[0] = n;\n\tbuf[0][0] = 0;\n\treturn (tab[0]);\n}\n", "zoo"))
    out.append(("zoo_member.c", ok_func("zoo_member.c", body="\tft_last(l)->default = b && c;\n\treturn (0);\n"), "zoo"))
    out.append(("zoo_member2.c", ok_func("zoo_member2.c", body="\tft_last(l)->next = 0;\n\tl->int = a;\n\treturn (0);\n"), "zoo"))
    out.append(("zoo_clean.c", ok_func("zoo_clean.c", body=zoo_clean), "zoo"))
    zoo_bad = ("\tint\ti;\n\tint\tj;\n\n\ti = j = 3;\n\ti++, j--;\n\ti = (i > 0) ? 1 : 2;\n\tfor (i = 0; i < 3; i++)\n\t\ti--;\n"
               "\tdo\n\t{\n\t\ti++;\n\t} while (i < 3);\n\tswitch (i)\n\t{\n\t\tcase 1:\n\t\t\tbreak ;\n\t\tdefault:\n\t\t\tbreak ;\n\t}\n"
               "end:\n\tgoto end;\n\twhile (i++ < 3);\n\tint k = 3;\n\treturn i;\n")
    out.append(("zoo_bad.c", ok_func("zoo_bad.c", body=zoo_bad), "zoo"))
    zoo_glob = ("typedef struct s_a\n{\n\tint\t\t\ta;\n\tstruct s_a\t*next;\n}\tt_a;\n\nenum e_b\n{\n\tA,\n\tB = 2\n};\n\n"
                "static int\tg_t[3] = {1, 2, 3};\nint\t\t\t(*g_f)(int, char *);\nextern char\t**g_env;\n\n"
                "int\t\tft_a(int a, ...);\nstatic void\tft_b(void (*f)(int), t_a *l);\nt_a\t\t*ft_c(const char *restrict s, unsigned long n);\n")
    out.append(("zoo_glob.h", header42("zoo_glob.h") + "\n#ifndef ZOO_GLOB_H\n# define ZOO_GLOB_H\n\n" + zoo_glob + "\n#endif\n", "zoo"))
    out.append(("zoo_glob.c", header42("zoo_glob.c") + "\n" + zoo_glob, "zoo"))
    zoo_pre = ("# include \"libft.h\"\n# define MAX 3\n# define STR \"s\"\n\n# ifdef MAX\n#  define B MAX\n# else\n#  define B 2\n# endif\n"
               "# if defined(MAX) && (MAX > 2 || !B)\n#  define W 1\n# elif MAX == 3\n#  define W 2\n# endif\n# pragma once\n# undef W\n\n"
               "int\tft_a(int a);\n")
    out.append(("zoo_preproc.h", header42("zoo_preproc.h") + "\n#ifndef ZOO_PREPROC_H\n# define ZOO_PREPROC_H\n\n" + zoo_pre + "\n#endif\n", "zoo"))
    out.append(("zoo_preproc.c", header42("zoo_preproc.c") + "\n#include \"libft.h\"\n\n#define MAX 3\n#ifdef MAX\n# define B MAX\n#endif\n\nint\tmain(void)\n{\n\treturn (B);\n}\n", "zoo"))
    # legal but unusual preprocessor constructs, one per file (most are a fatal diagnostic today; all must get an answer)
    odd = ["# include ZOO_ODD_H", "# include_next <stdio.h>", "# line 3 \"f.c\"", "#", "# define F(x, ...) g(x, __VA_ARGS__)", "# define S(x) #x",
           "# define P(a, b) a##b", "# if __has_include(<x.h>)\n# endif", "_Pragma(\"once\")", "%:define D 1", "# define E", "# ifdef\n# endif",
           "# if 1 ? 2 : 3\n# endif", "# if 'a' == 97\n# endif", "# elif 1", "# else", "# endif", "# error", "# define X(", "# include <a b.h>",
           "# include \"a.h\" junk", "# define ZOO_ODD_H 2", "# undef", "# if 0x1F & 0b1\n# endif", "# if (1\n# endif", "# include <stdio.h"]
    for k, d in enumerate(odd):
        out.append((f"zoo_odd{k}.h", header42(f"zoo_odd{k}.h") + f"\n#ifndef ZOO_ODD_H\n# define ZOO_ODD_H\n\n{d}\n\nint\tft_a(int a);\n\n#endif\n", "odd"))
        d0 = "\n".join(ln.replace("# ", "#", 1) if ln.startswith("# ") else ln for ln in d.split("\n"))
        out.append((f"zoo_odd{k}.c", header42(f"zoo_odd{k}.c") + f"\n{d0}\n\nint\tmain(void)\n{{\n\treturn (0);\n}}\n", "odd"))
    # unusual but legal C, one construct per file (whatever the tool thinks of them, each must get an answer, the same every time)
    legal_h = ["typedef struct s_bits\n{\n\tunsigned int\ta : 3;\n\tint\t\t\t\tb : 1;\n\tint\t\t\t\t: 0;\n}\tt_bits;",
               "typedef struct s_out\n{\n\tstruct s_in\n\t{\n\t\tint\ta;\n\t}\tin;\n\tunion u_u\n\t{\n\t\tint\t\ti;\n\t\tchar\tc;\n\t}\tu;\n\tenum e_e\n\t{\n\t\tA,\n\t\tB\n\t}\te;\n}\tt_out;",
               "int\t(*ft_get(int a))(int, char **);\nvoid\t(*(*ft_pp(void))(int))(char);",
               "typedef int\tt_grid[3][4];\nextern int\tg_tab[][2];\nint\t\tft_sum(int n, int tab[n][n]);",
               "int\tft_attr(int a) __attribute__((nonnull, warn_unused_result));\nvoid\tft_die(void) __attribute__((noreturn));",
               "static inline int\tft_min(int a, int b);\n_Noreturn void\tft_exit(int code);\nint\t\t\t\t\tft_r(char *restrict a, const char *const b);",
               "typedef unsigned long long int\tt_u64;\ntypedef long double\t\t\t\tt_ld;\ntypedef signed char\t\t\t\tt_sc;",
               "int\tft_very_long_identifier_name_that_goes_on_and_on_and_on_for_quite_a_while_indeed_0123456789(void);",
               "%:define DIGRAPH 1\nint\tft_di(int a<:3:>);",
               "??=define TRIGRAPH 1\nint\tft_tri(int a??(3??));",
               "int\tft_variadic(const char *fmt, ...);\nint\tft_old();",
               "struct s_fwd;\nunion u_fwd;\nenum e_fwd;\ntypedef struct s_fwd\tt_fwd;"]
    for k, body in enumerate(legal_h):
        out.append((f"legal{k}.h", header42(f"legal{k}.h") + f"\n#ifndef LEGAL{k}_H\n# define LEGAL{k}_H\n\n{body}\n\n#endif\n", "legal"))
    legal_c = ["\tt_p\tp;\n\n\tp = (t_p){.x = 1, .y = 2};\n\tft_use(&(t_p){3, 4});\n\treturn (p.x);\n",
               "\tint\ttab[3][2];\n\n\ttab[1][0] = (int [2]){1, 2}[1];\n\treturn (tab[1][0]);\n",
               "\tint\t(*f)(int);\n\tint\t(*g[2])(int);\n\n\tf = &ft_x;\n\tg[0] = f;\n\treturn ((*g[0])(3) + f(2));\n",
               "\tasm(\"nop\");\n\t__asm__ volatile (\"\" : : : \"memory\");\n\treturn (0);\n",
               "\twchar_t\t*w;\n\n\tw = L\"wide\";\n\tft_put(u8\"utf8\", U\"long\", u'c', L'w');\n\treturn (0);\n",
               "\tint\ta;\n\n\ta = 1 ? 2 : 3;\n\ta = (a, 2);\n\ta = sizeof(int [a]);\n\ta = _Alignof(int);\n\treturn (a);\n",
               "\tint\ta<:3:>;\n\n\ta<:0:> = 1;\n\tif (a<:0:> not_eq 2)\n\t\ta<:1:> = 2;\n\treturn (a<:0:>);\n",
               "\tint\ta;\n\n\ta = 0x1p3 + 0b101 + 1e3 + 017 + 1.5e-3f + 100ULL + 'a' + '\\x41' + '\\101';\n\treturn (a);\n",
               "\tint\ta;\n\n\ta = 3;\n\ta = a++ + ++a - a-- - --a;\n\ta <<= 2;\n\ta >>= 1;\n\ta = ~a & a | a ^ a;\n\treturn (!a && a || a);\n",
               "\tchar\t*s;\n\n\ts = \"a\" \"b\"\n\t\t\"c\";\n\ts = \"tab\\t nl\\n quote\\\" back\\\\ nul\\0 oct\\101 hex\\x41\";\n\treturn (s[0]);\n",
               "\tint\ta;\n\n\ta = 0;\n\twhile (a < 3)\n\t{\n\t\tif (a == 1)\n\t\t{\n\t\t\ta++;\n\t\t\tcontinue ;\n\t\t}\n\t\telse if (a == 2)\n\t\t\tbreak ;\n\t\telse\n\t\t\ta += 2;\n\t}\n\treturn (a);\n"]
    for k, body in enumerate(legal_c):
        out.append((f"legal{k}.c", ok_func(f"legal{k}.c", body=body), "legal"))
    out.append(("legal_knr.c", header42("legal_knr.c") + "\nint\tft_knr(a, b)\nint\ta;\nchar\t*b;\n{\n\treturn (a + *b);\n}\n", "legal"))
    out.append(("legal_nested_fn.c", header42("legal_nested_fn.c") + "\nstatic int\tft_a(int a);\n\nstatic int\tft_a(int a)\n{\n\treturn (a);\n}\n\nint\t\t\tmain(int argc, char **argv, char **envp)\n{\n\t(void)argc;\n\t(void)argv;\n\t(void)envp;\n\treturn (ft_a(1));\n}\n", "legal"))
    # statements whose handling depends on the debug level in the rules (fatal by default, tolerated under -d)
    for k, body in enumerate(["\tgoto 1;\n", "\tgoto ;\n", "\tgoto *p;\n", "\tgoto (a);\n", "\tint\ti;\n\n\ti = 0;\n\t) i++;\n"]):
        out.append((f"zoo_dbg{k}.c", ok_func(f"zoo_dbg{k}.c", body=body + "\treturn (0);\n"), "zoo"))
    # #if expressions nested d parentheses deep, one depth per file: the constant-expression parser runs under an absolute
    # recursion limit, so somewhere in this range the answer flips from a verdict to "too complex" - where exactly depends
    # on how deep the caller's stack already is (which must be the same for every input channel and option)
    if big_family:
        # one file carrying far more diagnostics than any sample (a cap, a page size or a buffer in a formatter shows only here)
        out.append(("stress_diags1200.c", H("stress_diags1200.c") + "\n" + "".join(f"int g_v{k:04d};\n" for k in range(600)), "stress"))
        out.append(("stress_diags2500.h", H("stress_diags2500.h") + "\n#ifndef STRESS_DIAGS2500_H\n# define STRESS_DIAGS2500_H\n\n"
                    + "".join(f"int ft_f{k:04d}(int a,int b) ;\n" for k in range(500)) + "\n#endif\n", "stress"))
    if big_family:
        # a line wider than 65 535 columns with diagnostics beyond that column and on the next line (a packed or truncated
        # position shows only here)
        wide = "x" * 70000
        out.append(("stress_wide70000.c", H("stress_wide70000.c") + "\nchar\t*g_s = \"" + wide + "\"+1;\nint g_a ;\nint g_b ;\n", "stress"))
        out.append(("stress_wide70000b.c", ok_func("stress_wide70000b.c", body="\treturn (\"" + wide + "\"[0] +1);\n") + "int g_a ;\n", "stress"))
    if enc_family:
        # files in a legacy 8-bit encoding (a lone surrogate in the scenario text is one raw byte on the simulated disk) and
        # UTF-8 files whose non-ASCII characters sit where columns matter: what a decoder remembered across files would shift
        acc = "\u00e9\u00e8\u00e0\u00f9\u00e7\u00ea"
        out.append(("enc_latin1.c", ok_func("enc_latin1.c") + "// caf\udce9 cr\udce8me br\udcfbl\udce9e\n", "stress"))
        out.append(("enc_latin1.h", H("enc_latin1.h") + "\n#ifndef ENC_LATIN1_H\n# define ENC_LATIN1_H\n\n// d\udce9j\udce0 vu\n#endif\n", "stress"))
        out.append(("enc_cp1252.c", ok_func("enc_cp1252.c", body="\tft_putstr(\"\udc93quoted\udc94 \udc80\");\n\treturn (0);\n"), "stress"))
        out.append(("enc_utf8_cols78.c", ok_func("enc_utf8_cols78.c") + "// " + (acc * 13)[:75] + "\n", "literal"))
        out.append(("enc_utf8_cols81.c", ok_func("enc_utf8_cols81.c") + "// " + (acc * 13)[:78] + "\n", "literal"))
        out.append(("enc_utf8_str.c", ok_func("enc_utf8_str.c", body="\tft_putstr(\"" + (acc * 11)[:62] + "\");\n\treturn (0);\n"), "literal"))
        # ... and undecodable bytes where they are echoed in a diagnostic (code position: no token rule matches them)
        out.append(("enc_badlex.c", ok_func("enc_badlex.c", body="\ta = 1;\udce9\n\treturn (0);\n"), "stress"))
        out.append(("enc_badlex2.c", ok_func("enc_badlex2.c") + "\udcff\udcfe\n", "stress"))
        out.append(("enc_badident.h", H("enc_badident.h") + "\n#ifndef ENC_BADIDENT_H\n# define ENC_BADIDENT_H\n\nint\tft_caf\udce9(void);\n\n#endif\n", "stress"))
        # a file whose only diagnostics sit beyond line 999 (anything in a report that is sized by the largest line number of the run)
        out.append(("tall1200.c", H("tall1200.c") + "\n" + "// filler\n" * 1186 + "int g_a ;\n", "stress"))
        out.append(("enc_utf8_bom.c", "\ufeff" + ok_func("enc_utf8_bom.c"), "literal"))
    for d in (range(44, 90) if depth_family else ()):
        out.append((f"depth_if{d}.c", header42(f"depth_if{d}.c") + "\n#if " + "(" * d + "1" + ")" * d + "\n# define A 1\n#endif\n\nint\tmain(void)\n{\n\treturn (0);\n}\n", "depth"))
    # line-break-like characters (which are NOT line breaks for a C source) inside multi-line tokens at the very end of a file,
    # with a violation on the last lines: any component that re-derives line numbers from token text shows here
    for k, ch in enumerate(["\x0c", "\x0b", "\x85", "\u2028", "\u2029", "\x1c"]):
        out.append((f"lbchar{k}.c", ok_func(f"lbchar{k}.c") + "\n/*\n** a" + ch + "b " + ch + "\n** " + "x" * 90 + "\n*/\n", "lbchar"))
        out.append((f"lbchar{k}s.c", ok_func(f"lbchar{k}s.c", body="\tft_putstr(\"a" + ch + "b\");\n\treturn (0); \n"), "lbchar"))
    # one stray character per file (each gets a BAD_LEXEME whose text quotes that character)
    for k, ch in enumerate(["@", "$", "`", "\\", "\u00a7", "\u00a0"]):
        out.append((f"badlex{k}.c", ok_func(f"badlex{k}.c", body=f"\ta = 1 {ch} 2;\n\treturn (0);\n"), "badlex"))
    # malformed literals (4.11)
    lits = ["0b102", "0189", "0xfg", "10lul", "10q", "1uu", "0x1e+1", "1e", "1e+", "1.e-", "1.2.3", "1.0q", "1.0ff",
            "0xx1p1", "0x1.8", "''", "'ab'", "'\\x'", "'\\q'", "L'a'", "u8\"s\"", "L''", "\"\\xZZ\"", "1..2", ".5.", "0x",
            "0b", "1e5f", "1.f", "0x1p-3"]
    for k, lit in enumerate(lits):
        out.append((f"lit_{k}.c", ok_func(f"lit_{k}.c", body=f"\ta = {lit};\n\treturn (0);\n"), "literal"))
    out.append(("lit_eof_chr.c", ok_func("lit_eof_chr.c") + "'a", "literal"))
    out.append(("lit_eof_str.c", ok_func("lit_eof_str.c") + "\"abc", "literal"))
    out.append(("lit_eol_chr.c", ok_func("lit_eol_chr.c", body="\ta = 'a\n\treturn (0);\n"), "literal"))
    out.append(("lit_nonascii.c", ok_func("lit_nonascii.c", body="\tft_putstr(\"h\u00e9llo \u4e16\u754c\");\n\treturn (0);\n"), "literal"))
    out.append(("lit_nonascii_ident.c", ok_func("lit_nonascii_ident.c", body="\t\u00e9 = 3;\n\treturn (0);\n"), "literal"))
    return out
