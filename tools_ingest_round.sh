#!/bin/bash
# usage: tools_ingest_round.sh <worktree base> <prop lower> <idA> <idB> <round note>
B=$1; pr=$2; IDA=$3; IDB=$4; NOTE=$5
for pair in "A:$IDA" "B:$IDB"; do X=${pair%%:*}; ID=${pair##*:}
/verif/tools_ingest_seed.sh $B/$pr $X $ID 2>&1 | tail -1
/venv/bin/python - <<PY
import json
a=json.load(open('/verif/seeded/$ID/agent_meta.json'))
m={"property":a.get("property"),"summary":a.get("summary"),"needs":a.get("needs"),"origin":"independent sub-agent ($NOTE), given only the property text and a scratch worktree",
"verified_by_me":"in a fresh scratch worktree of /repo: demo.py exits 0 on the clean tree; git apply patch.diff; the 514 tests pass; demo.py exits 1; worktree removed","caught_by":[a.get("property")]}
json.dump(m,open('/verif/seeded/$ID/meta.json','w'),indent=1)
PY
done
git -C /repo worktree remove --force $B/$pr
