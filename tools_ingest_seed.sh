#!/bin/bash
# usage: tools_ingest_seed.sh <agent worktree> <A|B> <seed id>   - verify a sub-agent's change independently and store it
set -u
WT=$1; X=$2; ID=$3
DST=/verif/seeded/$ID
mkdir -p $DST
cp $WT/seed/$X/patch.diff $WT/seed/$X/demo.py $DST/ 2>/dev/null
cp $WT/seed/$X/meta.json $DST/agent_meta.json 2>/dev/null
S=/tmp/nsw/verify-$ID
git -C /repo worktree add --detach $S HEAD -q
mkdir -p $S/seed/$X && cp $DST/demo.py $S/seed/$X/demo.py
cd $S
echo "== demo on clean tree"; timeout 600 /venv/bin/python seed/$X/demo.py > /tmp/nsw/$ID.clean.log 2>&1; C=$?; echo "exit $C"
echo "== apply"; git apply $DST/patch.diff; A=$?; echo "apply $A"
echo "== suite"; T=$(timeout 900 /venv/bin/python -m pytest -q -p no:cacheprovider 2>&1 | tail -1); echo "$T"
echo "== demo with change"; timeout 600 /venv/bin/python seed/$X/demo.py > /tmp/nsw/$ID.mut.log 2>&1; M=$?; echo "exit $M"; tail -5 /tmp/nsw/$ID.mut.log
cd /; git -C /repo worktree remove --force $S
echo "RESULT $ID clean=$C apply=$A suite='$T' mutated=$M"
