#!/bin/bash
# usage: tools_soak.sh <first seed> <last seed> [props...]   - runs quick checks under many seeds, prints only findings
A=$1; B=$2; shift 2
PROPS=${@:-C05 C07 C06 C04 C08 C15 C16}
for seed in $(seq $A $B); do
  for p in $PROPS; do
    out=$(VERIF_SEED=$seed NSIM_LIST_SITES=only ./check $p --no-minimise 2>&1)
    echo "$out" | grep "^SITE\|HARNESS" | grep -v "BAD_LEXEME is not in the published" | sed "s/^/seed=$seed $p /" | cut -c1-500
    echo "seed=$seed $p done"
  done
done
