#!/bin/bash
# runs every property's thorough tier once (seed from $1, default 0), listing findings only
SEED=${1:-0}
for p in ${PROPS:-C15 C04 C16 C07 C08 C06 C05}; do
  s=$(date +%s)
  out=$(VERIF_SEED=$SEED NSIM_LIST_SITES=1 ./check $p --tier thorough --no-minimise 2>&1)
  echo "$out" | grep "^SITE\|HARNESS\|VIOLATION\|^C[0-9][0-9]:" | cut -c1-600 | sed "s/^/$p /"
  echo "$p thorough done in $(( $(date +%s) - s )) s"
done
